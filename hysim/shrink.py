"""Minimiser over choice trees.

A candidate tree is re-executed; it is kept when the run still ends in a
violation with the same signature.  Passes: delete sub-spans (ddmin style,
outermost first), zero draws, lower draws by bisection.  Every execution
returns the *normalised* tree (what the replay actually consumed), which is
adopted so the tree never carries dead material.
"""
import copy
import time


def _spans(tree, path=()):
    """Yield (path, span) for every span, outermost first (BFS)."""
    queue = [(path, tree)]
    while queue:
        p, sp = queue.pop(0)
        yield p, sp
        for i, s in enumerate(sp.get("s", [])):
            queue.append((p + (i,), s))


def _get(tree, path):
    sp = tree
    for i in path:
        sp = sp["s"][i]
    return sp


def minimise(tree, test, max_execs=600, max_secs=120.0):
    """test(tree) -> normalised tree if still failing the same way, else None."""
    t0 = time.time()
    execs = [0]

    def attempt(cand):
        if execs[0] >= max_execs or time.time() - t0 > max_secs:
            return None
        execs[0] += 1
        return test(cand)

    best = tree
    improved = True
    rounds = 0
    while improved and rounds < 6:
        improved = False
        rounds += 1
        # ---- pass 1: delete sub-spans, outermost spans first
        for path, _ in list(_spans(best)):
            try:
                sp = _get(best, path)
            except (IndexError, KeyError):
                continue
            n = len(sp.get("s", []))
            if n == 0:
                continue
            chunk = max(1, n // 2)
            while chunk >= 1:
                i = 0
                while True:
                    try:
                        sp = _get(best, path)
                    except (IndexError, KeyError):
                        break
                    n = len(sp.get("s", []))
                    if i >= n:
                        break
                    cand = copy.deepcopy(best)
                    csp = _get(cand, path)
                    del csp["s"][i:i + chunk]
                    res = attempt(cand)
                    if res is not None:
                        best = res
                        improved = True
                    else:
                        i += chunk
                if chunk == 1:
                    break
                chunk //= 2
        # ---- pass 2: zero / lower draws
        for path, _ in list(_spans(best)):
            try:
                sp = _get(best, path)
            except (IndexError, KeyError):
                continue
            for k in range(len(sp.get("d", []))):
                try:
                    sp = _get(best, path)
                    v = sp["d"][k][2]
                except (IndexError, KeyError):
                    break
                if v == 0:
                    continue
                lo, hi = 0, v       # find the smallest still-failing value
                cand = copy.deepcopy(best)
                _get(cand, path)["d"][k][2] = 0
                res = attempt(cand)
                if res is not None:
                    best = res
                    improved = True
                    continue
                steps = 0
                while hi - lo > 1 and steps < 8:
                    steps += 1
                    mid = (lo + hi) // 2
                    cand = copy.deepcopy(best)
                    try:
                        _get(cand, path)["d"][k][2] = mid
                    except (IndexError, KeyError):
                        break
                    res = attempt(cand)
                    if res is not None:
                        best = res
                        improved = True
                        hi = mid
                    else:
                        lo = mid
        if execs[0] >= max_execs or time.time() - t0 > max_secs:
            break
    return best, execs[0]
