"""OS-level disk fault seam usable around calls that write through file
descriptors the harness cannot wrap (numpy tofile, zipfile, pandas to_csv):
RLIMIT_FSIZE in the forked run process.  A write that would carry a regular
file past `nbytes` is cut short at the limit and the next one fails with EFBIG
- the same short-write-then-error a full disk or quota gives.  Deterministic:
the limit is a drawn number, nothing else in the run writes files meanwhile."""
import contextlib
import resource
import signal


@contextlib.contextmanager
def file_size_limit(nbytes):
    old_sig = signal.signal(signal.SIGXFSZ, signal.SIG_IGN)
    soft, hard = resource.getrlimit(resource.RLIMIT_FSIZE)
    resource.setrlimit(resource.RLIMIT_FSIZE, (int(nbytes), hard))
    try:
        yield
    finally:
        resource.setrlimit(resource.RLIMIT_FSIZE, (soft, hard))
        signal.signal(signal.SIGXFSZ, old_sig)
