"""Command line of the checks."""
import argparse
import json
import os
import sys
import time


def main(argv):
    from . import runner
    runner.ensure_env()
    if argv and argv[0] == "replay":
        return cmd_replay(argv[1:])
    if argv and argv[0] == "selftest":
        from . import selftest
        return selftest.main(argv[1:])
    ap = argparse.ArgumentParser(prog="vcheck")
    ap.add_argument("prop")
    ap.add_argument("--tier", default=os.environ.get("VERIF_TIER") or "quick",
                    choices=["quick", "thorough"])
    ap.add_argument("--runs", type=int, default=None)
    ap.add_argument("--workers", type=int, default=None)
    ap.add_argument("--selfcheck", type=int, default=None)
    ap.add_argument("--session2", default=None,
                    help="internal (C18): per-call results of the listed "
                         "sessions executed in another order")
    ap.add_argument("--digests", default=None,
                    help="internal: print digests of the listed run indices")
    a = ap.parse_args(argv)
    try:
        seed = int(os.environ.get("VERIF_SEED") or 0)
    except ValueError:
        seed = 0
    from . import build
    try:
        build.activate("plain")
    except build.BuildError as e:
        print(f"HARNESS-ERROR build: {e}")
        return 2
    runner.quiet_fd1()
    if a.session2 is not None:
        from .engines import c18_session
        res = c18_session.session2_main(
            seed, [int(x) for x in a.session2.split(",") if x != ""])
        runner.say("SESSION2 " + json.dumps(res))
        return 0
    if a.digests is not None:
        out = {}
        for i in [int(x) for x in a.digests.split(",") if x != ""]:
            r = runner.execute_isolated(a.prop, seed, i, tier=a.tier)
            out[str(i)] = [r["digest"], r["result"], r.get("sig", ""),
                           r.get("detail", "")[:600]]
        runner.say("DIGESTS " + json.dumps(out))
        return 0
    runner.say(f"VERIF_SEED={seed} property={a.prop} tier={a.tier}")
    try:
        return runner.run_check(a.prop, a.tier, seed, nruns=a.runs,
                                workers=a.workers, selfcheck=a.selfcheck)
    except Exception as e:           # never let a harness bug look like a verdict
        import traceback
        runner.say("HARNESS-ERROR " + "".join(traceback.format_exception(e))[-3000:])
        return 2


def cmd_replay(argv):
    from . import runner, build
    path = argv[0]
    js0 = json.load(open(path))
    hs = js0.get("hashseed")
    opt = js0.get("optimize")
    if (hs is not None and os.environ.get("PYTHONHASHSEED") != str(hs)) or \
            (opt and not sys.flags.optimize):
        # the violation only shows under this interpreter configuration
        env = dict(os.environ)
        if hs is not None:
            env["VERIF_HASHSEED"] = str(hs)
            env["PYTHONHASHSEED"] = str(hs)
        if opt:
            env["PYTHONOPTIMIZE"] = str(opt)
        os.execve(sys.executable, [sys.executable] + sys.argv, env)
    try:
        build.activate("plain")
    except build.BuildError as e:
        print(f"HARNESS-ERROR build: {e}")
        return 2
    runner.quiet_fd1()
    eng = runner.engine_for(js0["property"])
    if hasattr(eng, "replay"):
        return eng.replay(path)
    js, r = runner.replay_file(path, keep=True)
    for line in r.get("trace", []):
        runner.say("  " + line)
    runner.say(f"replay property={js['property']} seed={js['seed']} "
               f"run={js['run_index']} result={r['result']} sig={r['sig']} "
               f"digest={r['digest']}")
    if r["result"] == "violation":
        runner.say(f"VIOLATION property={js['property']} replay={path}")
        runner.say(f"  detail={r['detail'][:1500]}")
        return 1
    if r["result"] == "harness_error":
        runner.say(r["detail"])
        return 2
    return 0
