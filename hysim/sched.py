"""Engine B core: baton-passing scheduler with virtual clock and fault injector.

Actors are real Python threads running real hydrodiy code.  Exactly one thread
holds the baton at any time; an actor hands it back at every seam point (file
open / flush / read / close / exists, sleep) and when it ends.  Which runnable
actor is resumed next, whether the clock advances instead, and whether a fault
lands on the resumed actor are ChoiceStream draws: the interleaving is a
function of the seed, not of the OS scheduler.  No real sleep anywhere.
"""
import threading

from .core import Violation, Inconclusive


class SimCrash(BaseException):
    """Process crash of one actor (BaseException: `except Exception` in the
    code under test cannot swallow it)."""


class SimAbort(BaseException):
    """Run is over; parked actors unwind and exit."""


class Actor:
    def __init__(self, sim, name, inc, fn, role):
        self.sim = sim
        self.name = name
        self.inc = inc            # incarnation number
        self.fn = fn
        self.role = role
        self.sem = threading.Semaphore(0)
        self.state = "ready"      # ready | sleeping | done | crashed
        self.wake = 0
        self.crash_pending = False
        self.started = False
        self.files = []           # open proxies (marked dead on crash)
        self.unwinding = False
        self.nseams = 0
        self.thread = threading.Thread(target=self._main, daemon=True,
                                       name="hysim-actor")

    def _main(self):
        sim = self.sim
        self.sem.acquire()
        try:
            if sim.abort:
                return
            self.started = True
            self.fn(self)
            self.state = "done"
            sim.log.ev("end", self.name, self.inc)
        except SimCrash:
            self.state = "crashed"
            sim.log.ev("crashed", self.name, self.inc)
        except SimAbort:
            self.state = "done"
        except Violation as v:
            self.state = "done"
            if sim.violation is None:
                sim.violation = v
        except BaseException as e:       # harness problem inside an actor
            self.state = "done"
            if sim.error is None:
                sim.error = e
        finally:
            sim.current = None
            sim.main_sem.release()


class Sim:
    def __init__(self, cs, log, ctx, max_steps=4000):
        self.cs = cs
        self.log = log
        self.ctx = ctx
        self.now = 0              # virtual milliseconds
        self.actors = []
        self.current = None
        self.main_sem = threading.Semaphore(0)
        self.abort = False
        self.violation = None
        self.error = None
        self.max_steps = max_steps
        self.steps = 0
        self.fault_rates = {"crash": 0, "delay": 0}   # per 1000 resumes
        self.fault_budget = 0
        self.on_crash = None      # callback(actor) -> schedule restart
        self.last_fault_time = 0

    # ---- actor side ------------------------------------------------------
    def me(self):
        a = self.current
        if a is not None and threading.current_thread() is a.thread:
            return a
        return None

    def _yield(self, a):
        self.current = None
        self.main_sem.release()
        a.sem.acquire()
        if self.abort:
            a.unwinding = True
            for f in a.files:
                f.dead = True
            raise SimAbort()
        if a.crash_pending:
            a.crash_pending = False
            a.unwinding = True
            for f in a.files:
                f.dead = True
            raise SimCrash()

    def seam(self, kind, *info):
        """A point where the actor may be pre-empted, delayed or crashed."""
        a = self.me()
        if a is None:
            self.log.ev("seam.main", kind, info)
            return
        if a.unwinding or self.abort:
            return
        a.nseams += 1
        self.log.ev("seam", a.name, a.inc, kind, info, self.now)
        self.log.kind((a.name, kind))
        self.ctx.hit("seam." + kind)
        self._yield(a)

    def sleep(self, secs):
        a = self.me()
        ms = max(0, int(round(float(secs) * 1000)))
        if a is None:
            self.now += ms
            return
        if a.unwinding or self.abort:
            return
        a.state = "sleeping"
        a.wake = self.now + ms
        self.log.ev("sleep", a.name, a.inc, ms, self.now)
        self.log.kind((a.name, "sleep"))
        self.ctx.hit("seam.sleep")
        self._yield(a)

    # ---- scheduler side ---------------------------------------------------
    def spawn(self, name, fn, role="worker", inc=0, delay_ms=0):
        a = Actor(self, name, inc, fn, role)
        if delay_ms > 0:
            a.state = "sleeping"
            a.wake = self.now + delay_ms
        self.actors.append(a)
        a.thread.start()
        self.log.ev("spawn", name, inc, delay_ms, self.now)
        return a

    def _resume(self, a):
        self.current = a
        a.sem.release()
        self.main_sem.acquire()

    def run_until_idle(self):
        """Schedule until no actor is ready or sleeping (or a verdict is in)."""
        cs = self.cs
        if True:
            while self.violation is None and self.error is None:
                ready = [a for a in self.actors if a.state == "ready"]
                sleepers = [a for a in self.actors if a.state == "sleeping"]
                if not ready and not sleepers:
                    break
                self.steps += 1
                if self.steps > self.max_steps:
                    raise Inconclusive(f"step cap {self.max_steps} reached")
                with cs.span("sched"):
                    nopt = len(ready) + (1 if sleepers else 0)
                    k = cs.draw("pick", nopt)
                    if k >= len(ready):
                        t = min(a.wake for a in sleepers)
                        if t > self.now:
                            self.now = t
                        for a in sleepers:
                            if a.wake <= self.now:
                                a.state = "ready"
                        self.log.ev("clock", self.now)
                        continue
                    a = ready[k]
                    if self.fault_budget > 0 and a.started and \
                            a.role in self.crashable_roles:
                        f = cs.draw("fault", 1000)
                        if f >= 1000 - self.fault_rates["crash"]:
                            a.crash_pending = True
                            self.fault_budget -= 1
                            self.last_fault_time = self.now
                            self.ctx.hit("fault.crash_" + a.role)
                            self.log.ev("fault.crash", a.name, a.inc)
                        elif f >= 1000 - self.fault_rates["crash"] \
                                - self.fault_rates["delay"]:
                            d = 1 + cs.draw("delay_ms", 5000)
                            a.state = "sleeping"
                            a.wake = self.now + d
                            self.fault_budget -= 1
                            self.last_fault_time = self.now
                            self.ctx.hit("fault.delay")
                            self.log.ev("fault.delay", a.name, a.inc, d)
                            continue
                    self._resume(a)
                    if a.state == "crashed" and self.on_crash is not None:
                        self.on_crash(a)

    crashable_roles = ("master", "worker")

    def shutdown(self):
        if self.abort:
            return
        self.abort = True
        for a in self.actors:
            if a.state in ("ready", "sleeping"):
                a.sem.release()
                self.main_sem.acquire()
        for a in self.actors:
            a.thread.join(timeout=10)
        self.ctx.hit("simtime_ms", self.now)
