"""Batch runner, replay, minimisation, evidence, exit codes.

Exit codes of every check: 0 property held on everything explored (possibly
with KNOWN-FINDING lines); 1 VIOLATION printed with a replay file confirmed in
a fresh interpreter; 2 harness problem (build, determinism mismatch, timeout,
unconfirmed replay) - no verdict.
"""
import collections
import faulthandler
import importlib
import json
import multiprocessing
import os
import shutil
import subprocess
import sys
import time
import traceback
from concurrent.futures import ProcessPoolExecutor, as_completed
from pathlib import Path

from .core import ChoiceStream, EventLog, Violation, Inconclusive, seed_for

VERIF = Path(__file__).resolve().parent.parent
OUT = VERIF / "out"
EVID = Path(os.environ.get("VERIF_EVIDENCE_DIR", str(VERIF / "evidence")))   # development sweeps write elsewhere

ENGINES = {
    "C12": "hysim.engines.c12_vectors",
    "C19": "hysim.engines.c19_fleet",
    "C09": "hysim.engines.c09_csvstore",
    "C13": "hysim.engines.c13_gridstore",
    "C18": "hysim.engines.c18_session",
    "C05": "hysim.engines.c05_alloc",
}

_REAL_STDOUT = None


def say(*a):
    """Print to the real stdout (fd 1 is pointed at /dev/null for kernels)."""
    s = " ".join(str(x) for x in a) + "\n"
    if _REAL_STDOUT is not None:
        os.write(_REAL_STDOUT, s.encode())
    else:
        sys.__stdout__.write(s)
        sys.__stdout__.flush()


def quiet_fd1():
    """Confine kernel chatter (printf in c_accumulate / c_slope)."""
    global _REAL_STDOUT
    if _REAL_STDOUT is None:
        sys.stdout.flush()
        _REAL_STDOUT = os.dup(1)
        dn = os.open(os.devnull, os.O_WRONLY)
        os.dup2(dn, 1)
        os.close(dn)
        sys.stdout = os.fdopen(os.dup(_REAL_STDOUT), "w", buffering=1)


def ensure_env():
    """Re-exec with the pinned environment (hash seed, BLAS threads, backend)."""
    want = {"PYTHONHASHSEED": os.environ.get("VERIF_HASHSEED", "0"),
            "OPENBLAS_NUM_THREADS": "1", "OMP_NUM_THREADS": "1",
            "MKL_NUM_THREADS": "1", "MPLBACKEND": "Agg", "PYTHONUTF8": "1",
            "LC_ALL": "C.UTF-8", "TZ": "UTC",
            "PYTHONDONTWRITEBYTECODE": "1"}
    if any(os.environ.get(k) != v for k, v in want.items()):
        env = dict(os.environ)
        env.update(want)
        os.execve(sys.executable, [sys.executable] + sys.argv, env)


class Ctx:
    """Per-run context handed to engines."""

    def __init__(self, prop, tier, known, workdir, keep):
        self.prop = prop
        self.tier = tier
        self._known = known
        self.workdir = workdir
        self.keep = keep
        self.stats = collections.Counter()
        self.known_seen = collections.Counter()
        self.states = set()

    def known(self, sig):
        """True when `sig` is a listed known finding (model then follows the
        real behaviour for exactly this signature)."""
        if sig in self._known:
            self.known_seen[sig] += 1
            return True
        return False

    def hit(self, probe, n=1):
        self.stats[probe] += n

    def state(self, *abstract):
        """Record an abstract model state reached (reach measure only)."""
        if len(self.states) < 4096:
            self.states.add(hash(abstract) & 0xFFFFFFFF)


def load_known(prop):
    p = VERIF / "known_findings.json"
    if not p.exists():
        return {}
    js = json.loads(p.read_text())
    return {f["signature"]: f["what"] for f in js.get("findings", [])
            if f.get("property") == prop}


def engine_for(prop):
    return importlib.import_module(ENGINES[prop])


def execute(prop, seed, idx, tree=None, keep=False, tier="quick",
            want_tree=False, progress_fd=None):
    """One simulated run. Returns a plain dict (picklable)."""
    eng = engine_for(prop)
    cs = ChoiceStream(seed=seed_for(seed, prop, idx), tree=tree)
    log = EventLog(keep=keep)
    log.progress_fd = progress_fd
    work = Path(os.environ.get("VERIF_SCRATCH", "/dev/shm")) / \
        f"hyverif-{os.getpid()}" / f"{prop}-{idx}"
    ctx = Ctx(prop, tier, load_known(prop) if tree is not None else
              _KNOWN.setdefault(prop, load_known(prop)), work, keep)
    res = {"idx": idx, "result": "ok", "sig": "", "detail": "", "inv": ""}
    log.ev("seed", seed, prop, idx)
    cwd = os.getcwd()
    try:
        eng.run(cs, log, ctx)
    except Violation as v:
        res.update(result="violation", sig=v.signature, detail=v.detail,
                   inv=v.invariant)
        log.ev("VIOLATION", v.signature)
    except Inconclusive as e:
        res.update(result="inconclusive", detail=str(e))
    except BaseException as e:       # harness problem, never a verdict
        if isinstance(e, (KeyboardInterrupt, SystemExit)):
            raise
        res.update(result="harness_error",
                   detail="".join(traceback.format_exception(e))[-4000:])
    finally:
        try:
            os.chdir(cwd)
        except OSError:
            pass
        if work.exists():
            shutil.rmtree(work, ignore_errors=True)
    res["digest"] = log.digest()
    res["nev"] = log.n
    import hashlib as _hl
    res["kinds"] = _hl.sha256(repr(log.kinds).encode()).hexdigest()[:16]
    res["stats"] = dict(ctx.stats)
    res["known_seen"] = dict(ctx.known_seen)
    res["states"] = sorted(ctx.states)
    res["ndraws"] = cs.ndraws
    if keep:
        res["trace"] = log.lines
    if want_tree or res["result"] != "ok":
        res["tree"] = cs.finish()
    return res


_KNOWN = {}
_WARM = set()


def execute_isolated(prop, seed, idx, tree=None, keep=False, tier="quick",
                     want_tree=False, timeout=None):
    """Run `execute` in a forked child so that every simulated run starts from
    the same pristine post-import state of hydrodiy and of the harness
    (module-level caches, key-name registries, numpy RNG, matplotlib state
    left by an earlier run in the same worker cannot leak into this one; a
    replay in a fresh interpreter starts from that same state)."""
    import pickle
    import select
    eng = engine_for(prop)              # import before forking
    if prop not in _WARM:
        _WARM.add(prop)
        if hasattr(eng, "warmup"):
            eng.warmup()                # import everything a run will need
        import gc
        gc.collect()
        gc.freeze()
    r, w = os.pipe()
    pfd = os.memfd_create("hyverif-progress")
    pid = os.fork()
    if pid == 0:
        code = 0
        try:
            os.close(r)
            res = execute(prop, seed, idx, tree=tree, keep=keep, tier=tier,
                          want_tree=want_tree, progress_fd=pfd)
            data = pickle.dumps(res)
            with os.fdopen(w, "wb") as f:
                f.write(data)
        except BaseException:
            code = 1
        finally:
            os._exit(code)
    os.close(w)
    chunks = []
    with os.fdopen(r, "rb") as f:
        while True:
            b = f.read(1 << 16)
            if not b:
                break
            chunks.append(b)
    _, status = os.waitpid(pid, 0)
    data = b"".join(chunks)
    try:
        last = os.pread(pfd, 128, 0).decode("utf-8", "replace").strip()
    except OSError:
        last = ""
    os.close(pfd)
    if not data:
        base = {"idx": idx, "inv": "", "digest": "", "nev": 0, "kinds": "",
                "stats": {}, "known_seen": {}, "states": [], "ndraws": 0,
                "tree": tree}
        if os.WIFSIGNALED(status) and os.WTERMSIG(status) in (4, 6, 7, 8, 11):
            # the interpreter running hydrodiy was brought down
            sig = os.WTERMSIG(status)
            base.update(result="violation", inv="interpreter_died",
                        sig=f"interpreter_died_signal_{sig}@{last}",
                        detail=f"the process executing the run was killed by "
                               f"signal {sig} during operation {last!r}")
            return base
        base.update(result="harness_error", sig="",
                    detail=f"isolated run ended without a result (wait status "
                           f"{status}, last operation {last!r})")
        return base
    return pickle.loads(data)


def _worker_init():
    quiet_fd1()
    faulthandler.enable()


def _chunk(prop, seed, idxs, tier, budget_s):
    faulthandler.dump_traceback_later(budget_s, exit=True)
    out = []
    try:
        for i in idxs:
            r = execute_isolated(prop, seed, i, tier=tier)
            r.pop("trace", None)
            if r["result"] == "ok":
                r.pop("tree", None)
            out.append(r)
    finally:
        faulthandler.cancel_dump_traceback_later()
        d = Path(os.environ.get("VERIF_SCRATCH", "/dev/shm")) / \
            f"hyverif-{os.getpid()}"
        if d.exists():
            shutil.rmtree(d, ignore_errors=True)
    return out


def fresh_digests(prop, seed, idxs, tier, hashseed="1", timeout=600,
                  optimize=False):
    """Re-run indices in a fresh interpreter with another hash seed (and, for
    engines that ask for it, with asserts compiled out: python -O)."""
    env = dict(os.environ)
    env["PYTHONHASHSEED"] = hashseed
    env["VERIF_HASHSEED"] = hashseed
    if optimize:
        env["PYTHONOPTIMIZE"] = "1"
    else:
        env.pop("PYTHONOPTIMIZE", None)
    env["VERIF_SEED"] = str(seed)
    cmd = [sys.executable, str(VERIF / "vcheck"), prop, "--digests",
           ",".join(str(i) for i in idxs), "--tier", tier]
    r = subprocess.run(cmd, capture_output=True, text=True, env=env,
                       timeout=timeout, cwd=str(VERIF))
    if r.returncode != 0:
        raise RuntimeError(f"fresh digest run failed rc={r.returncode}: "
                           f"{r.stdout[-1500:]} {r.stderr[-1500:]}")
    line = [l for l in r.stdout.splitlines() if l.startswith("DIGESTS ")][-1]
    return json.loads(line[len("DIGESTS "):])


def replay_file(path, keep=True):
    js = json.loads(Path(path).read_text())
    r = execute_isolated(js["property"], js["seed"], js["run_index"],
                         tree=js["tree"], keep=keep,
                         tier=js.get("tier", "quick"))
    return js, r


def confirm_fresh(path, sig):
    """Replay a file in a fresh interpreter; must fail with the same signature."""
    cmd = [sys.executable, str(VERIF / "vcheck"), "replay", str(path)]
    r = subprocess.run(cmd, capture_output=True, text=True, timeout=900,
                       cwd=str(VERIF))
    ok = r.returncode == 1 and f"sig={sig}" in r.stdout
    return ok, (r.stdout + r.stderr)[-3000:]


def minimise_and_report(prop, seed, tier, vres):
    from .shrink import minimise
    sig = vres["sig"]
    idx = vres["idx"]

    def test(tree):
        r = execute_isolated(prop, seed, idx, tree=tree, tier=tier,
                             want_tree=True)
        if r["result"] == "violation" and r["sig"] == sig:
            return r["tree"]
        return None

    tree0 = vres.get("tree")
    if tree0 is None:
        # the run died before it could hand back its choice tree: the replay
        # file re-generates it from (seed, run index)
        again = execute_isolated(prop, seed, idx, tier=tier)
        if again["result"] != "violation" or again["sig"] != sig:
            return None, "crash did not reproduce from its seed"
        tree, nexec, final = None, 1, again
    else:
        norm = test(tree0)
        if norm is None:
            return None, "violation did not reproduce from its own recorded tree"
        budget = getattr(engine_for(prop), "MINIMISE", {})
        tree, nexec = minimise(norm, test, **budget)
        final = execute_isolated(prop, seed, idx, tree=tree, keep=True,
                                 tier=tier, want_tree=True)
    OUT.joinpath("replays").mkdir(parents=True, exist_ok=True)
    path = OUT / "replays" / f"{prop}-{seed}-{idx}.json"
    js = {"property": prop, "seed": seed, "run_index": idx, "tier": tier,
          "signature": sig, "invariant": final.get("inv"),
          "detail": final.get("detail"), "digest": final["digest"],
          "minimiser_executions": nexec,
          "replay_cmd": f"./vcheck replay {path}",
          "trace": final.get("trace", []), "tree": final.get("tree")}
    path.write_text(json.dumps(js, indent=1, default=str))
    ok, txt = confirm_fresh(path, sig)
    if not ok and tree0 is not None:
        # the code under test may itself be non-repeatable (unseeded
        # randomness, dependence on heap content): fall back to the recorded,
        # unminimised run and allow a few attempts; the replay file says so
        js["tree"] = tree0
        js["nondeterministic"] = True
        js["note"] = ("the minimised run did not fail again in a fresh "
                      "interpreter; this is the unminimised run, which fails "
                      "with the same signature in some executions only: the "
                      "code under test is not repeatable")
        path.write_text(json.dumps(js, indent=1, default=str))
        for attempt in range(4):
            ok, txt = confirm_fresh(path, sig)
            if ok:
                break
    if not ok:
        return None, f"replay not confirmed in a fresh interpreter: {txt}"
    return path, final


TIERS = {}   # prop -> {"quick": n, "thorough": n} supplied by engines


def run_check(prop, tier, seed, nruns=None, workers=None, selfcheck=None):
    t0 = time.time()
    eng = engine_for(prop)
    if hasattr(eng, "run_check"):          # engines with their own driver (C05)
        return eng.run_check(tier, seed)
    nruns = nruns or eng.RUNS[tier]
    workers = workers or min(16, os.cpu_count() or 1)
    chunk = max(1, min(eng.CHUNK if hasattr(eng, "CHUNK") else 50,
                       (nruns + workers - 1) // workers))
    idxs = list(range(nruns))
    chunks = [idxs[i:i + chunk] for i in range(0, nruns, chunk)]
    budget = getattr(eng, "CHUNK_BUDGET_S", 600)
    results = {}
    ctxmp = multiprocessing.get_context("fork")
    try:
        with ProcessPoolExecutor(workers, mp_context=ctxmp,
                                 initializer=_worker_init) as ex:
            futs = [ex.submit(_chunk, prop, seed, c, tier, budget)
                    for c in chunks]
            for f in as_completed(futs):
                for r in f.result():
                    results[r["idx"]] = r
    except Exception as e:
        say(f"HARNESS-ERROR property={prop} worker pool failed: {e!r}")
        return 2
    ordered = [results[i] for i in idxs]
    herr = [r for r in ordered if r["result"] == "harness_error"]
    if herr:
        say(f"HARNESS-ERROR property={prop} run={herr[0]['idx']}\n"
            f"{herr[0]['detail']}")
        return 2

    # ---- determinism self-check: fresh interpreter, other hash seed
    nself = selfcheck if selfcheck is not None else eng.SELFCHECK[tier]
    mism = []
    if nself:
        step = max(1, nruns // nself)
        sample = idxs[::step][:nself]
        try:
            fd = fresh_digests(prop, seed, sample, tier,
                               optimize=getattr(eng, "FRESH_OPTIMIZE", False))
        except Exception as e:
            say(f"HARNESS-ERROR property={prop} determinism self-check: {e}")
            return 2
        for i in sample:
            if (fd.get(str(i)) or [None])[0] != results[i]["digest"]:
                mism.append(i)
        if mism:
            # a run that behaves differently under another hash seed: if the
            # other execution ended in a violation, that is the finding (the
            # code under test depends on the hash seed); otherwise no verdict
            hv = [i for i in mism if fd[str(i)][1] == "violation"]
            if hv and all(results[i]["result"] == "ok" for i in hv):
                i = hv[0]
                OUT.joinpath("replays").mkdir(parents=True, exist_ok=True)
                path = OUT / "replays" / f"{prop}-{seed}-{i}-hashseed1.json"
                path.write_text(json.dumps({
                    "property": prop, "seed": seed, "run_index": i,
                    "tier": tier, "tree": None, "hashseed": "1",
                    "optimize": "1" if getattr(eng, "FRESH_OPTIMIZE", False)
                    else None,
                    "signature": fd[str(i)][2], "detail": fd[str(i)][3],
                    "note": "passes in the main lane (PYTHONHASHSEED=0), "
                            "fails in the fresh interpreter (PYTHONHASHSEED=1"
                            + (", python -O" if getattr(eng, "FRESH_OPTIMIZE",
                                                        False) else "")
                            + "): behaviour depends on that interpreter "
                            "configuration"}, indent=1))
                ok, txt = confirm_fresh(path, fd[str(i)][2])
                if ok:
                    say(f"VIOLATION property={prop} replay={path}")
                    say(f"  signature={fd[str(i)][2]} (only in the fresh "
                        f"interpreter: PYTHONHASHSEED=1"
                        + (", python -O" if getattr(eng, "FRESH_OPTIMIZE",
                                                    False) else "")
                        + f") detail={fd[str(i)][3][:400]}")
                    return 1
            say(f"HARNESS-ERROR property={prop} nondeterministic runs {mism[:8]}"
                " (digest differs in a fresh interpreter with another hash seed)")
            return 2

    # ---- violations
    viol = [r for r in ordered if r["result"] == "violation"]
    reported = []
    rc = 0
    seen_sigs = set()
    for v in viol:
        if v["sig"] in seen_sigs:
            continue
        seen_sigs.add(v["sig"])
        if len(reported) >= int(os.environ.get("VERIF_MAXREPORT", "3")):
            break
        path, info = minimise_and_report(prop, seed, tier, v)
        if path is None:
            say(f"HARNESS-ERROR property={prop} run={v['idx']} sig={v['sig']}: "
                f"{info}")
            return 2
        say(f"VIOLATION property={prop} replay={path}")
        say(f"  signature={v['sig']} detail={info.get('detail', '')[:500]}")
        reported.append(str(path))
        rc = 1

    sigc = collections.Counter(v["sig"] for v in viol)
    if sigc:
        say("  violation signatures: " + ", ".join(f"{k} x{n}" for k, n in sigc.most_common(12)))
    extra = None
    if hasattr(eng, "post_batch") and not viol:
        try:
            prc, extra = eng.post_batch(seed, tier, ordered, say)
        except Exception as e:
            say(f"HARNESS-ERROR property={prop} post-batch check: {e!r}")
            return 2
        if prc:
            rc = prc
            reported.append("cross-session")
    known = load_known(prop)
    kseen = collections.Counter()
    for r in ordered:
        kseen.update(r["known_seen"])
    for sig, what in known.items():
        say(f"KNOWN-FINDING: property={prop} {sig} {what} "
            f"(observed in {kseen.get(sig, 0)} steps of this run)")

    write_evidence(prop, tier, seed, eng, ordered, time.time() - t0,
                   len(viol), nself, reported, extra)
    ninc = sum(1 for r in ordered if r["result"] == "inconclusive")
    say(f"{prop} tier={tier} seed={seed} runs={nruns} violations={len(viol)} "
        f"inconclusive={ninc} wall={time.time() - t0:.1f}s rc={rc}")
    return rc


def write_evidence(prop, tier, seed, eng, ordered, wall, nviol, nself,
                   replays, extra=None):
    stats = collections.Counter()
    for r in ordered:
        stats.update(r["stats"])
    nontriv = set()
    kinds = set()
    states = set()
    for r in ordered:
        states.update(r.get("states", ()))
        if r["stats"].get("nontrivial", 0) > 0:
            nontriv.add(r["digest"])
        kinds.add(r["kinds"])
    nruns = len(ordered)
    # a few decoded samples: re-execute with trace kept
    samples = []
    for i in [r["idx"] for r in ordered if r["stats"].get("nontrivial", 0)][:3]:
        rr = execute_isolated(prop, seed, i, keep=True, tier=tier)
        samples.append({"run_index": i, "digest": rr["digest"],
                        "events": rr["trace"][:60]})
    faults = {k[len("fault."):]: v for k, v in stats.items()
              if k.startswith("fault.")}
    probes = {k[len("probe."):]: v for k, v in stats.items()
              if k.startswith("probe.")}
    cov = {
        "evaluations": nruns,
        "distinct_nontrivial": len(nontriv),
        "rule": eng.RULE,
        "samples": samples or [{"note": "no nontrivial run"}],
        "exhaustive": False,
        "runs_per_hour": int(nruns / max(wall, 1e-9) * 3600),
        "seeds_per_hour": int(nruns / max(wall, 1e-9) * 3600),
        "simulated_time_s": stats.get("simtime_ms", 0) / 1000.0,
        "steps_total": stats.get("steps", 0),
        "faults_fired": faults,
        "reach_probes": probes,
        "distinct_interleavings": len(kinds),
        "interleaving_measure": getattr(eng, "INTERLEAVING_MEASURE",
                                        "distinct op-kind sequences"),
        "distinct_model_states": len(states),
        "inconclusive_runs": sum(1 for r in ordered
                                 if r["result"] == "inconclusive"),
        "determinism_selfcheck_runs": nself,
        "determinism_selfcheck": ("digest of each sampled run recomputed in a "
                                  "fresh interpreter with PYTHONHASHSEED=1"
                                  + (" and python -O" if getattr(
                                      eng, "FRESH_OPTIMIZE", False) else "")
                                  + "; all equal") if nself else "not run",
        "real_components": eng.REAL,
        "stub_components": eng.STUB,
        "counters": {k: v for k, v in sorted(stats.items())
                     if not k.startswith(("fault.", "probe."))},
        "replays": replays,
    }
    if extra:
        cov.update(extra)
    ev = {"property_id": prop, "tier": tier, "seed": seed,
          "level": getattr(eng, "LEVEL", "exploration"), "coverage": cov,
          "assumptions": eng.ASSUMPTIONS, "wall_s": round(wall, 2),
          "violations": nviol}
    EVID.mkdir(exist_ok=True)
    (EVID / f"{prop}.json").write_text(json.dumps(ev, indent=1, default=str))
