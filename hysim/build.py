"""Rebuild hydrodiy's extension modules from the working tree with plain gcc.

Cython is not available offline; the Cython-generated wrappers
(src/hydrodiy/*/c_hydrodiy_*.c) are taken from the repository when present and
from /verif/vendor otherwise.  The kernel .c/.h files always come from the
repository, so an edited kernel is always what runs.  Builds are cached by a
hash of every input under /verif/.build/<hash>/<flavour>/.
"""
import hashlib
import os
import shutil
import subprocess
import sys
import sysconfig
import gzip
from concurrent.futures import ThreadPoolExecutor
from pathlib import Path

VERIF = Path(__file__).resolve().parent.parent
REPO = Path(os.environ.get("VERIF_REPO", "/repo"))
BUILD_ROOT = Path(os.environ.get("VERIF_BUILD_ROOT", str(VERIF / ".build")))

MODULES = {
    "data": ["c_dateutils.c", "c_qualitycontrol.c", "c_dutils.c", "c_var2h.c",
             "c_baseflow.c"],
    "stat": ["c_crps.c", "c_dscore.c", "c_olsleverage.c", "c_armodels.c",
             "ADinf.c", "AnDarl.c", "c_andersondarling.c", "c_paretofront.c"],
    "gis": ["c_grid.c", "c_catchment.c", "c_points_inside_polygon.c"],
}

SHIMMED = {"c_crps.c", "c_dscore.c"}     # malloc/free redirected (asan flavour)

FLAVOURS = {
    "plain": ["-O2", "-fPIC", "-fwrapv", "-w"],
    "asan": ["-O1", "-g", "-fPIC", "-fno-omit-frame-pointer", "-w",
             "-fsanitize=address,undefined",
             "-fno-sanitize-recover=undefined"],
}


class BuildError(Exception):
    pass


def _wrapper(mod):
    """Path to the generated wrapper C file (repo first, vendor fallback)."""
    p = REPO / "src" / "hydrodiy" / mod / f"c_hydrodiy_{mod}.c"
    pyx = REPO / "src" / "hydrodiy" / mod / f"c_hydrodiy_{mod}.pyx"
    vend = VERIF / "vendor" / f"c_hydrodiy_{mod}.c.gz"
    vsha = VERIF / "vendor" / f"c_hydrodiy_{mod}.pyx.sha256"
    pyx_sha = hashlib.sha256(pyx.read_bytes()).hexdigest() if pyx.exists() else ""
    if p.exists():
        # the generated file must not be older than an edited pyx that differs
        # from the one the vendored wrapper came from
        if vsha.exists() and pyx_sha and vsha.read_text().strip() != pyx_sha \
                and p.stat().st_mtime < pyx.stat().st_mtime:
            raise BuildError(f"{pyx} edited; cannot regenerate Cython wrapper "
                             "offline")
        return p, None
    if vend.exists():
        if vsha.exists() and pyx_sha and vsha.read_text().strip() != pyx_sha:
            raise BuildError(f"{pyx} edited; cannot regenerate Cython wrapper "
                             "offline")
        return None, vend
    raise BuildError(f"no generated wrapper for module {mod}")


def _inputs_hash():
    h = hashlib.sha256()
    for mod, files in sorted(MODULES.items()):
        d = REPO / "src" / "hydrodiy" / mod
        wp, vend = _wrapper(mod)
        h.update((wp or vend).read_bytes())
        for f in sorted(d.glob("*.c")) + sorted(d.glob("*.h")):
            if f.name.startswith("c_hydrodiy_"):
                continue
            h.update(f.name.encode())
            h.update(f.read_bytes())
    h.update((VERIF / "vendor" / "shim.c").read_bytes())
    h.update(repr(FLAVOURS).encode())
    h.update(sys.version.encode())
    return h.hexdigest()[:20]


def _compile(mod, flavour, outdir):
    import numpy
    d = REPO / "src" / "hydrodiy" / mod
    inc = ["-I", sysconfig.get_paths()["include"], "-I", numpy.get_include(),
           "-I", str(d)]
    flags = FLAVOURS[flavour]
    work = outdir / f"obj_{mod}"
    work.mkdir(parents=True, exist_ok=True)
    wp, vend = _wrapper(mod)
    if wp is None:
        wp = work / f"c_hydrodiy_{mod}.c"
        wp.write_bytes(gzip.decompress(vend.read_bytes()))
    objs = []
    srcs = [(wp, False)] + [(d / f, flavour == "asan" and f in SHIMMED)
                            for f in MODULES[mod]]
    if flavour == "asan" and mod == "stat":
        srcs.append((VERIF / "vendor" / "shim.c", False))
    for src, shim in srcs:
        obj = work / (src.stem + ".o")
        cmd = ["gcc", "-c", str(src), "-o", str(obj)] + flags + inc + \
              ["-DNPY_NO_DEPRECATED_API=NPY_1_7_API_VERSION"]
        if shim:
            cmd += ["-Dmalloc=hyverif_malloc", "-Dfree=hyverif_free",
                    "-include", str(VERIF / "vendor" / "shim.h")]
        r = subprocess.run(cmd, capture_output=True, text=True)
        if r.returncode != 0:
            raise BuildError(f"gcc failed for {src}:\n{r.stderr[-3000:]}")
        objs.append(str(obj))
    ext = sysconfig.get_config_var("EXT_SUFFIX")
    so = outdir / f"c_hydrodiy_{mod}{ext}"
    cmd = ["gcc", "-shared", "-o", str(so)] + objs + ["-lm"]
    if flavour == "asan":
        cmd += ["-fsanitize=address,undefined"]
    r = subprocess.run(cmd, capture_output=True, text=True)
    if r.returncode != 0:
        raise BuildError(f"link failed for {mod}:\n{r.stderr[-3000:]}")
    shutil.rmtree(work, ignore_errors=True)
    return so


def ensure(flavour="plain"):
    """Build (if needed) and return the directory holding the extensions."""
    hsh = _inputs_hash()
    root = BUILD_ROOT / hsh
    out = root / flavour
    marker = out / ".ok"
    if not marker.exists():
        if out.exists():
            shutil.rmtree(out)
        tmp = root / f".tmp-{flavour}-{os.getpid()}"
        tmp.mkdir(parents=True, exist_ok=True)
        try:
            with ThreadPoolExecutor(3) as ex:
                list(ex.map(lambda m: _compile(m, flavour, tmp), MODULES))
            (tmp / ".ok").write_text("ok")
            try:
                tmp.rename(out)
            except OSError:
                shutil.rmtree(tmp, ignore_errors=True)   # raced: other build won
        except Exception:
            shutil.rmtree(tmp, ignore_errors=True)
            raise
    # prune old builds (keep this hash only; other flavours of it stay)
    if BUILD_ROOT.exists():
        for d in BUILD_ROOT.iterdir():
            if d.is_dir() and d.name != hsh:
                try:
                    # a build in progress (another process, another tree)
                    # has no marker yet: its directory times count too
                    age = max([p.stat().st_mtime for p in d.rglob(".ok")] +
                              [d.stat().st_mtime] +
                              [p.stat().st_mtime for p in d.iterdir()])
                    import time
                    if time.time() - age > 3600:
                        shutil.rmtree(d, ignore_errors=True)
                except OSError:
                    pass
    return out


def activate(flavour="plain"):
    """Make `import hydrodiy` / `import c_hydrodiy_*` resolve to the working
    tree's Python sources and the freshly built extensions."""
    out = ensure(flavour)
    src = str(REPO / "src")
    for p in (src, str(out)):
        while p in sys.path:
            sys.path.remove(p)
    sys.path.insert(0, src)
    sys.path.insert(0, str(out))
    pp = os.environ.get("PYTHONPATH", "")
    parts = [x for x in pp.split(os.pathsep) if x and x not in (src, str(out))]
    os.environ["PYTHONPATH"] = os.pathsep.join([str(out), src] + parts)
    return out


def asan_env(extra=None):
    """Environment for a child interpreter that loads the asan flavour."""
    out = ensure("asan")
    libasan = subprocess.run(["gcc", "-print-file-name=libasan.so"],
                             capture_output=True, text=True).stdout.strip()
    libstd = "/usr/lib/x86_64-linux-gnu/libstdc++.so.6"
    env = dict(os.environ)
    src = str(REPO / "src")
    env["PYTHONPATH"] = os.pathsep.join([str(out), src, str(VERIF)])
    env["LD_PRELOAD"] = f"{libasan} {libstd}"
    env["ASAN_OPTIONS"] = ("detect_leaks=0:abort_on_error=1:"
                           "allocator_may_return_null=1:handle_segv=1:"
                           "detect_stack_use_after_return=0")
    env["UBSAN_OPTIONS"] = "print_stacktrace=1:halt_on_error=1"
    env["PYTHONHASHSEED"] = "0"
    env["OPENBLAS_NUM_THREADS"] = "1"
    env["OMP_NUM_THREADS"] = "1"
    env["MPLBACKEND"] = "Agg"
    if extra:
        env.update(extra)
    return env


if __name__ == "__main__":
    fl = sys.argv[1:] or ["plain", "asan"]
    for f in fl:
        print(f, ensure(f))
