"""Simulated file layer: router for open()/Path.exists() on workspace paths.

Paths under the run's workspace get a proxy around the real file that models
the writing process's userspace buffer: write() appends to the buffer and the
buffer reaches the real file in chunks of `bufsize` bytes, on flush() and on
close(); what another actor can read is only what has been flushed.  Every
open, buffer flush, read, close and exists on a workspace path is a seam point
of the scheduler.  A crashed actor's proxies are dead: unwinding `with` blocks
flush nothing, the file keeps exactly the bytes flushed so far.
Everything outside the workspace passes through untouched.
"""
import builtins
import io
import os
import pathlib


class SimWriter:
    def __init__(self, fs, path, text, encoding, actor):
        self.fs = fs
        self.path = path
        self.name = path
        self.text = text
        # a text file opened without an encoding gets the process default
        # (the locale's), which the simulation owns like any other setting
        self.encoding = fs.default_encoding if encoding in (None, "locale") \
            else encoding
        self.mode = "w" if text else "wb"
        self.buf = bytearray()
        self.dead = False
        self.failed = False       # a disk error hit this writer: data is lost
        self.closed = False
        self.actor = actor
        self.fd = os.open(path, os.O_WRONLY | os.O_CREAT | os.O_TRUNC, 0o644)
        self.nflushed = 0
        if actor is not None:
            actor.files.append(self)
        fs.on_write_open(path)

    def writable(self):
        return True

    def readable(self):
        return False

    def seekable(self):
        return False

    def write(self, s):
        if self.closed:
            raise ValueError("I/O operation on closed file.")
        data = s.encode(self.encoding) if self.text else bytes(s)
        self.buf += data
        self._drain(True)
        return len(s)

    def writelines(self, lines):
        for ln in lines:
            self.write(ln)

    def _drain(self, full_only):
        bs = self.fs.bufsize
        while (len(self.buf) >= bs) or (not full_only and self.buf):
            n = min(bs, len(self.buf))
            self.fs.sim.seam("flush", self.fs.rel(self.path), self.nflushed, n)
            if self.dead:
                return
            err = self.fs.draw_io_fault()
            if err == "short":
                # short write then error: part of the chunk reaches the file
                k = max(1, n // 2)
                os.write(self.fd, bytes(self.buf[:k]))
                del self.buf[:k]
                self.nflushed += k
                self.fs.ctx.hit("fault.short_write_then_eio")
                self.fs.sim.log.ev("fault.short_write", self.fs.rel(self.path))
                self.failed = True
                raise OSError(5, "Input/output error (simulated)")
            if err == "enospc":
                self.fs.ctx.hit("fault.disk_full")
                self.fs.sim.log.ev("fault.enospc", self.fs.rel(self.path))
                self.failed = True
                raise OSError(28, "No space left on device (simulated)")
            os.write(self.fd, bytes(self.buf[:n]))
            del self.buf[:n]
            self.nflushed += n
            self.fs.ctx.hit("fs.bytes_flushed", n)

    def flush(self):
        if not self.dead and not self.closed:
            self._drain(False)

    def close(self):
        if self.closed:
            return
        if not self.dead:
            self.fs.sim.seam("close", self.fs.rel(self.path), "w")
        if not self.dead and not self.failed:
            self._drain(False)
        self.closed = True
        try:
            os.close(self.fd)
        except OSError:
            pass
        if self.actor is not None and self in self.actor.files:
            self.actor.files.remove(self)
        if self.failed:
            self.fs.ctx.hit("probe.file_left_torn_by_disk_error")
            self.fs.on_write_abandoned(self.path)
        elif self.dead:
            self.fs.ctx.hit("probe.file_left_torn_by_crash")
            self.fs.on_write_abandoned(self.path)
        else:
            self.fs.on_write_close(self.path)

    def __enter__(self):
        return self

    def __exit__(self, *a):
        self.close()
        return False

    def __del__(self):
        try:
            if not self.closed:
                self.dead = True
                os.close(self.fd)
                self.closed = True
        except Exception:
            pass


class SimReader:
    def __init__(self, fs, path, f):
        self.fs = fs
        self.path = path
        self._f = f
        self.dead = False

    def read(self, *a):
        self.fs.sim.seam("read", self.fs.rel(self.path))
        data = self._f.read(*a)
        self.fs.on_read(self.path, data)
        return data

    def readline(self, *a):
        self.fs.sim.seam("read", self.fs.rel(self.path))
        return self._f.readline(*a)

    def readlines(self, *a):
        self.fs.sim.seam("read", self.fs.rel(self.path))
        return self._f.readlines(*a)

    def __iter__(self):
        return self

    def __next__(self):
        ln = self.readline()
        if not ln:
            raise StopIteration
        return ln

    def close(self):
        self._f.close()

    def __enter__(self):
        return self

    def __exit__(self, *a):
        self.close()
        return False

    def __getattr__(self, k):
        return getattr(self._f, k)


class SimFS:
    default_encoding = "utf-8"

    def __init__(self, sim, ctx, root, bufsize):
        self.sim = sim
        self.ctx = ctx
        self.root = os.path.realpath(str(root))
        self.bufsize = max(1, int(bufsize))
        self._real_open = None
        self._real_io_open = None
        self._real_exists = None
        self.write_epoch = 0
        self.writers_active = 0
        self.complete = {}        # path -> True when last writer closed cleanly
        self.listeners = []

    def rel(self, p):
        return os.path.relpath(p, self.root)

    io_fault_rate = 0      # per 1000 flushes
    io_fault_budget = 0

    def draw_io_fault(self):
        """Disk faults on a buffer flush (seeded): short write + EIO, ENOSPC."""
        if self.io_fault_budget <= 0 or self.io_fault_rate <= 0:
            return None
        v = self.sim.cs.draw("iofault", 1000)
        if v >= 1000 - self.io_fault_rate:
            self.io_fault_budget -= 1
            return "short" if v % 2 else "enospc"
        return None

    def mine(self, file):
        if isinstance(file, int):
            return None
        try:
            p = os.fspath(file)
        except TypeError:
            return None
        if isinstance(p, bytes):
            return None
        p = os.path.abspath(p)
        if p == self.root or p.startswith(self.root + os.sep):
            return p
        # workspace may be reached through a symlinked /dev/shm spelling
        rp = os.path.realpath(p)
        if rp.startswith(self.root + os.sep):
            return rp
        return None

    # ---- bookkeeping used by oracles ------------------------------------
    def on_write_open(self, path):
        self.write_epoch += 1
        self.writers_active += 1
        self.complete[path] = False

    def on_write_close(self, path):
        self.writers_active -= 1
        self.complete[path] = True

    def on_write_abandoned(self, path):
        self.writers_active -= 1

    def on_read(self, path, data):
        for cb in self.listeners:
            cb(path, data)

    # ---- router -----------------------------------------------------------
    def open(self, file, mode="r", buffering=-1, encoding=None, errors=None,
             newline=None, closefd=True, opener=None):
        p = self.mine(file)
        if p is None:
            return self._real_io_open(file, mode, buffering, encoding, errors,
                                      newline, closefd, opener)
        m = "".join(sorted(mode.replace("t", "")))
        self.sim.seam("open", self.rel(p), mode)
        if m in ("w", "bw"):
            return SimWriter(self, p, "b" not in mode, encoding, self.sim.me())
        if m in ("r", "br"):
            if "b" not in mode and encoding in (None, "locale"):
                encoding = self.default_encoding
            f = self._real_io_open(p, mode, buffering, encoding, errors,
                                   newline)
            return SimReader(self, p, f)
        # other modes (append, update): pass through, seams at open only
        self.ctx.hit("fs.passthrough_mode")
        return self._real_io_open(file, mode, buffering, encoding, errors,
                                  newline, closefd, opener)

    def install(self):
        self._real_open = builtins.open
        self._real_io_open = io.open
        self._real_exists = pathlib.Path.exists
        fs = self

        def sim_open(file, mode="r", buffering=-1, encoding=None, errors=None,
                     newline=None, closefd=True, opener=None):
            return fs.open(file, mode, buffering, encoding, errors, newline,
                           closefd, opener)

        def sim_exists(self_path, **kw):
            p = fs.mine(self_path)
            if p is not None:
                fs.sim.seam("exists", fs.rel(p))
            return fs._real_exists(self_path, **kw)

        builtins.open = sim_open
        io.open = sim_open
        pathlib.Path.exists = sim_exists

    def uninstall(self):
        if self._real_open is not None:
            builtins.open = self._real_open
            io.open = self._real_io_open
            pathlib.Path.exists = self._real_exists
            self._real_open = None
