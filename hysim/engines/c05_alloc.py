"""C05 - native kernels never touch memory outside their buffers.

Engine D (parent side).  Two parts, both against extension modules rebuilt
from the working tree with ASan/UBSan:

(a) allocation-fault enumeration - the deciding, exhaustive part: every
    failure mask over the allocation sites reachable from the Python API
    (2^7 for crps, 2 for dscore) and k-th-allocation-fails sweeps over mixed
    call sequences, through a malloc/free seam compiled into the harness's own
    build of c_crps.c / c_dscore.c;
(b) sanitised replay of simulated sessions: seeded sessions of the entry
    points of the property's quantifier with a boundary-biased argument pool,
    buffers reused across calls, arguments carved out of canary blocks.

The parent never loads the instrumented modules: it starts children, reads
their progress files, exit status and stderr.
"""
import collections
import json
import os
import re
import shutil
import subprocess
import sys
import time
from concurrent.futures import ThreadPoolExecutor
from pathlib import Path

from .. import build
from ..runner import say, VERIF, OUT, EVID, load_known

LEVEL = "fault_enumeration"
SIZES = {  # children x sessions per child, alloc workloads
    "quick": {"children": 16, "sessions": 16, "workloads": 16, "big": 65},
    "thorough": {"children": 64, "sessions": 120, "workloads": 512,
                 "big": 768},
}
CHILD_TIMEOUT = {"quick": 600, "thorough": 3000}
RULE = ("(a) for each seeded workload (n forecasts x m members, ties, obs "
        "outside the ensemble) every non-empty allocation-failure mask of "
        "metrics.crps (2^7-1) and metrics.dscore (1), plus 'k-th allocation "
        "of a crps/dscore/crps sequence fails' for k=0..15, under ASan/UBSan; "
        "(b) seeded sessions of 80-300 calls of the kernel-reaching entry "
        "points over a boundary-biased pool (lengths 0,1,2,3,5,17,64,300; "
        "NaN/inf/negative/huge; 1x1 grids; one-cell catchments; cell numbers "
        "-1,0,n-1,n; nprint 0; maxnan<0; nval buffers 1..; AR orders 0..11) "
        "in sanitised children; (c) single calls with lengths / cell counts "
        "46341..92682 where products of sizes leave 32-bit range; a case is "
        "non-trivial when the kernel was "
        "entered (mask applied with >=1 failed allocation, or a session call "
        "that returned or raised from inside hydrodiy); distinct = distinct "
        "(workload, function, mask) triples plus distinct session digests")
REAL = ["all kernels of c_hydrodiy_data / c_hydrodiy_stat / c_hydrodiy_gis "
        "rebuilt from the working tree with -fsanitize=address,undefined",
        "the Cython-generated wrappers", "hydrodiy Python wrappers", "numpy"]
STUB = ["malloc/free of c_crps.c and c_dscore.c (harness shim compiled in with "
        "-Dmalloc=... -Dfree=...)", "session scheduler, argument pool with "
        "canaries"]
ASSUMPTIONS = [
    "uninitialised reads are not visible (no MSan)",
    "a .pyx edited without a regenerated wrapper cannot be rebuilt (exit 2)",
    "kernel hangs are reported as inconclusive (wall-clock is not an oracle)",
    "under an allocation failure the call may raise or return; what is "
    "required is no sanitizer report, no abnormal exit, arguments unchanged",
    "a public call that returns normally although a kernel it reached "
    "returned a non-zero error code is a violation (unusable input must be "
    "answered by an exception or a sentinel, which every other wrapper does "
    "by raising on that code)",
]


def child_cmd(args):
    return [sys.executable, "-m", "hysim.engines.c05_child", json.dumps(args)]


def run_child(args, env, timeout):
    t0 = time.time()
    if args.get("optimize"):
        # interpreter configuration: assert statements (Python and Cython)
        # are stripped; bounds must not depend on them
        env = dict(env)
        env["PYTHONOPTIMIZE"] = "1"
    try:
        r = subprocess.run(child_cmd(args), env=env, capture_output=True,
                           text=True, timeout=timeout, cwd=str(VERIF),
                           errors="replace")
        rc, err = r.returncode, r.stderr
    except subprocess.TimeoutExpired as e:
        rc, err = "timeout", (e.stderr or b"").decode("utf-8", "replace") \
            if isinstance(e.stderr, bytes) else (e.stderr or "")
    prog = []
    try:
        with open(args["progress"]) as f:
            for line in f:
                try:
                    prog.append(json.loads(line))
                except ValueError:
                    pass
    except OSError:
        pass
    return {"rc": rc, "stderr": err, "progress": prog,
            "wall": time.time() - t0}


def classify(res):
    """-> (kind, signature, detail); kind in ok|violation|inconclusive|harness"""
    rc, err = res["rc"], res["stderr"]
    if rc == 0:
        return "ok", "", ""
    if rc == "timeout" or "Timeout (" in err:
        return "inconclusive", "watchdog", err[-1500:]
    m = re.search(r"ERROR: AddressSanitizer: ([\w-]+)", err)
    frames = re.findall(r"#\d+ 0x[0-9a-f]+ in (\w+) .*?(\w+\.c):(\d+)", err)
    ours = [f for f in frames if f[1].startswith(("c_", "AnDarl", "ADinf"))
            and not f[1].startswith("c_hydrodiy_")]
    where = ours[0][0] if ours else (frames[0][0] if frames else "?")
    if m:
        access = re.search(r"(READ|WRITE) of size (\d+)", err)
        acc = access.group(1).lower() if access else ""
        return "violation", f"asan_{m.group(1)}_{acc}@{where}", err[-6000:]
    m = re.search(r"(\w+\.c):(\d+):\d+: runtime error: ([^\n]+)", err)
    if m:
        what = re.sub(r"[^a-z]+", "_", m.group(3).lower())[:40].strip("_")
        return "violation", f"ubsan_{what}@{m.group(1)}", err[-6000:]
    if rc == 3:
        return "violation", "canary_overwritten", err[-3000:]
    if rc == 5:
        kerr = [p for p in res["progress"] if p and p[0] == "KERR"]
        what = kerr[-1][3] if kerr else "?"
        return "violation", f"kernel_error_code_ignored@{what}", \
            json.dumps(kerr[-1] if kerr else None)
    if isinstance(rc, int) and rc < 0:
        return "violation", f"signal_{-rc}", err[-6000:]
    if "Fatal Python error" in err:
        return "violation", "fatal_python_error", err[-6000:]
    return "harness", f"rc={rc}", err[-6000:]


def last_call(prog):
    calls = [p for p in prog if p and p[0] in ("CALL", "MASK", "KTH", "STACK", "BIG")]
    return calls[-1] if calls else None


def scratch():
    d = Path(os.environ.get("VERIF_SCRATCH", "/dev/shm")) / \
        f"hyverif-c05-{os.getpid()}"
    d.mkdir(parents=True, exist_ok=True)
    return d


def minimise_session(seed, idx, upto, sig, env, sdir, budget=24,
                     optimize=False):
    """ddmin over call indices 0..upto of one session, children in parallel."""
    keep = list(range(upto + 1))
    used = [0]

    def test_many(cands):
        out = []
        with ThreadPoolExecutor(8) as ex:
            futs = []
            for j, cand in enumerate(cands):
                args = {"mode": "sessions", "seed": seed, "sessions": [idx],
                        "keep": cand, "optimize": optimize,
                        "progress": str(sdir / f"min-{idx}-{used[0]}-{j}.log")}
                futs.append(ex.submit(run_child, args, env, 300))
            for f in futs:
                r = f.result()
                k, s, _ = classify(r)
                out.append(k == "violation" and
                           s.split("@")[-1] == sig.split("@")[-1])
        used[0] += len(cands)
        return out

    # cheap first guesses: the crashing call alone, then short suffixes
    guesses = [[upto]] + [keep[-n:] for n in (2, 4, 8, 16) if n < len(keep)]
    res = test_many(guesses)
    for g, ok in zip(guesses, res):
        if ok:
            keep = g
            break
    chunk = max(1, len(keep) // 2)
    while chunk >= 1 and used[0] < budget and len(keep) > 1:
        cands = []
        for i in range(0, len(keep) - 1, chunk):
            c = keep[:i] + keep[i + chunk:]
            if upto in c:
                cands.append(c)
        cands = cands[:8]
        if not cands:
            break
        res = test_many(cands)
        for c, ok in zip(cands, res):
            if ok:
                keep = c
                break
        else:
            if chunk == 1:
                break
            chunk //= 2
            continue
        chunk = max(1, min(chunk, len(keep) // 2))
    return keep, used[0]


def replay(path):
    js = json.load(open(path))
    try:
        env = build.asan_env()
    except build.BuildError as e:
        say(f"HARNESS-ERROR build: {e}")
        return 2
    sdir = scratch()
    try:
        if js["part"] == "session":
            args = {"mode": "sessions", "seed": js["seed"],
                    "sessions": [js["session"]], "keep": js["keep"],
                    "optimize": js.get("optimize", False),
                    "progress": str(sdir / "replay.log")}
        elif js["part"] == "big":
            args = {"mode": "big", "seed": js["seed"],
                    "big": [js["workload"]],
                    "progress": str(sdir / "replay.log")}
        else:
            args = {"mode": "alloc", "seed": js["seed"],
                    "workloads": [js["workload"]],
                    "progress": str(sdir / "replay.log")}
        r = run_child(args, env, 600)
        kind, sig, detail = classify(r)
        for p in r["progress"][-12:]:
            say("  " + json.dumps(p)[:300])
        say(f"replay property=C05 result={kind} sig={sig}")
        if kind == "violation":
            say(f"VIOLATION property=C05 replay={path}")
            say("  " + detail[-1800:].replace("\n", "\n  "))
            return 1
        if kind == "harness":
            say(detail)
            return 2
        return 0
    finally:
        shutil.rmtree(sdir, ignore_errors=True)


def run_check(tier, seed):
    t0 = time.time()
    try:
        env = build.asan_env()
    except build.BuildError as e:
        say(f"HARNESS-ERROR build: {e}")
        return 2
    sz = SIZES[tier]
    sdir = scratch()
    jobs = []
    nses = sz["children"] * sz["sessions"]
    per = sz["sessions"]
    # alloc workloads are spread over 4 children
    nw = sz["workloads"]
    wchunks = [list(range(i, nw, 4)) for i in range(4)]
    for j, wl in enumerate(wchunks):
        jobs.append({"mode": "alloc", "seed": seed, "workloads": wl,
                     "progress": str(sdir / f"alloc-{j}.log")})
    for j in range(sz["children"]):
        jobs.append({"mode": "sessions", "seed": seed,
                     "sessions": list(range(j * per, (j + 1) * per)),
                     "optimize": False,   # see DESIGN 10: python -O is out of scope
                     "progress": str(sdir / f"sess-{j}.log")})
    nbig = sz["big"]
    nbc = 13 if tier == "quick" else 16
    for j in range(nbc):
        jobs.append({"mode": "big", "seed": seed,
                     "big": list(range(j, nbig, nbc)),
                     "progress": str(sdir / f"big-{j}.log")})
    results = []
    pending = list(jobs)
    violations = []     # (sig, job args, result)
    inconclusive = 0
    harness = []
    rounds = 0
    try:
        while pending and rounds < 6:
            rounds += 1
            with ThreadPoolExecutor(16) as ex:
                futs = [(a, ex.submit(run_child, a, env, CHILD_TIMEOUT[tier]))
                        for a in pending]
                batch = [(a, f.result()) for a, f in futs]
            pending = []
            for a, r in batch:
                results.append((a, r))
                kind, sig, detail = classify(r)
                if kind == "ok":
                    continue
                if kind == "harness":
                    harness.append((a, sig, detail))
                    continue
                lc = last_call(r["progress"])
                if kind == "inconclusive":
                    inconclusive += 1
                    say(f"  inconclusive (watchdog / time limit) at "
                        f"{json.dumps(lc)[:300]}")
                else:
                    violations.append((sig, a, r, detail, lc))
                # carry on with the sessions after the one that ended the child
                if a["mode"] == "sessions" and lc is not None:
                    rest = [s for s in a["sessions"] if s > lc[1]]
                    if rest:
                        b = dict(a)
                        b["sessions"] = rest
                        b["progress"] = a["progress"] + f".r{rounds}"
                        pending.append(b)
                if a["mode"] == "big" and lc is not None:
                    rest = a["big"][a["big"].index(lc[1]) + 1:]
                    if rest:
                        b = dict(a)
                        b["big"] = rest
                        b["progress"] = a["progress"] + f".r{rounds}"
                        pending.append(b)
        if harness:
            a, sig, detail = harness[0]
            say(f"HARNESS-ERROR property=C05 child {a['mode']} {sig}\n{detail}")
            return 2

        # ---- digest of part (a) + oracle over its records
        masks = 0
        masks_failed_alloc = 0
        alloc_viol = []
        triples = set()
        kth = 0
        probes = collections.Counter()
        for a, r in results:
            if a["mode"] != "alloc":
                continue
            for p in r["progress"]:
                if p[0] == "MASKRES":
                    _, w, fn, mask, outcome, na, nf, nfail, live, untouched, \
                        again_ok = p
                    masks += 1
                    triples.add((w, fn, mask))
                    if nfail > 0:
                        masks_failed_alloc += 1
                    probes["mask_outcome_" + outcome.split(":")[0]] += 1
                    if bin(mask).count("1") > 1:
                        probes["mask_with_more_than_one_failure"] += 1
                    if live != 0:
                        probes["allocation_not_freed_after_faulted_call"] += 1
                    if not untouched:
                        alloc_viol.append(("arguments_modified_under_enomem",
                                           w, fn, mask))
                    if not again_ok:
                        alloc_viol.append(("poisoned_state_after_enomem", w,
                                           fn, mask))
                elif p[0] == "KTHRES":
                    kth += 1
                    if p[4] != 0:
                        probes["allocation_not_freed_after_kth_failure"] += 1
                elif p[0] == "STACKRES":
                    probes["small_stack_thread_calls"] += 1
                elif p[0] == "LEAK":
                    probes["allocation_not_freed_unfaulted"] += 1
        # ---- sessions
        ncalls = 0
        sdig = set()
        sessions_done = 0
        entry_calls = collections.Counter()
        for a, r in results:
            if a["mode"] != "sessions":
                continue
            for p in r["progress"]:
                if p[0] == "CALL":
                    ncalls += 1
                    entry_calls[p[3]] += 1
                elif p[0] == "ENV":
                    if p[2]:
                        probes["sessions_with_environment_switches_set:"
                               + ",".join(p[3])] += 1
                elif p[0] == "KNOWNHIT":
                    probes["known_finding_met:" + p[3]] += 1
                elif p[0] == "KERR":
                    probes["kernel_error_code_but_call_returned:" + p[3]] += 1
                elif p[0] == "DONE":
                    sessions_done += 1
                    sdig.add(p[2])
                    probes["session_calls_returned"] += p[3]
                    probes["session_calls_raised"] += p[4]

        nbigdone = 0
        for a, r in results:
            if a["mode"] != "big":
                continue
            for p in r["progress"]:
                if p[0] == "BIGRES":
                    nbigdone += 1
                    entry_calls["big:" + p[2]] += 1
                    probes["big_length_calls_" + p[4].split(":")[0]] += 1
        sigc = collections.Counter(v[0] for v in violations)
        if sigc:
            say("  violation signatures: " + ", ".join(
                f"{k} x{n}" for k, n in sigc.most_common(20)))
            ex = {}
            for sig, a, r, detail, lc in violations:
                ex.setdefault(sig, lc)
            for k, lc in ex.items():
                say(f"    {k}: e.g. {json.dumps(lc)[:260]}")
        # ---- report violations (minimised, confirmed)
        rc = 0
        replays = []
        seen = set()
        unconfirmed = []
        OUT.joinpath("replays").mkdir(parents=True, exist_ok=True)
        for sig, a, r, detail, lc in violations:
            if sig in seen or len(replays) >= int(
                    os.environ.get("VERIF_MAXREPORT", "4")):
                continue
            seen.add(sig)
            if a["mode"] == "sessions":
                idx, k = lc[1], lc[2]
                keep, nchild = minimise_session(seed, idx, k, sig, env, sdir,
                                                optimize=bool(a.get("optimize")))
                js = {"property": "C05", "part": "session", "seed": seed,
                      "optimize": bool(a.get("optimize")),
                      "session": idx, "keep": keep, "signature": sig,
                      "crashing_call": lc, "minimiser_children": nchild,
                      "sanitizer_report": detail[-4000:],
                      "replay_cmd": "./vcheck replay <this file>"}
                path = OUT / "replays" / f"C05-{seed}-s{idx}.json"
            elif a["mode"] == "big":
                js = {"property": "C05", "part": "big", "seed": seed,
                      "workload": lc[1] if lc else a["big"][0],
                      "signature": sig, "last_record": lc,
                      "sanitizer_report": detail[-4000:]}
                path = OUT / "replays" / f"C05-{seed}-b{js['workload']}.json"
            else:
                js = {"property": "C05", "part": "alloc", "seed": seed,
                      "workload": lc[1] if lc else 0, "signature": sig,
                      "last_record": lc, "sanitizer_report": detail[-4000:]}
                path = OUT / "replays" / f"C05-{seed}-w{js['workload']}.json"
            path.write_text(json.dumps(js, indent=1))
            # confirm in a fresh child; a minimised call list that does not
            # reproduce (heap-layout dependent defects) falls back to the
            # whole session prefix
            ok = replay_quiet(path, sig, env, sdir)
            if not ok and a["mode"] == "sessions":
                js["keep"] = list(range(lc[2] + 1))
                js["minimised"] = False
                path.write_text(json.dumps(js, indent=1))
                ok = replay_quiet(path, sig, env, sdir) or \
                    replay_quiet(path, sig, env, sdir)
            if ok:
                say(f"VIOLATION property=C05 replay={path}")
                say(f"  signature={sig} last={json.dumps(lc)[:300]}")
                replays.append(str(path))
                rc = 1
            else:
                unconfirmed.append(sig)
        if unconfirmed:
            say(f"  note: {len(unconfirmed)} further sanitizer report(s) did "
                f"not replay from their minimised call list: {unconfirmed}")
            if not replays:
                say("HARNESS-ERROR property=C05: sanitizer reports seen but "
                    "none replays in a fresh child")
                return 2
        for v in alloc_viol[:3]:
            path = OUT / "replays" / f"C05-{seed}-w{v[1]}-{v[0]}.json"
            path.write_text(json.dumps({"property": "C05", "part": "alloc",
                                        "seed": seed, "workload": v[1],
                                        "signature": v[0], "function": v[2],
                                        "mask": v[3]}, indent=1))
            say(f"VIOLATION property=C05 replay={path}")
            say(f"  signature={v[0]} workload={v[1]} {v[2]} mask={v[3]}")
            rc = 1
        for sig, what in load_known("C05").items():
            say(f"KNOWN-FINDING: property=C05 {sig} {what}")

        wall = time.time() - t0
        samples = []
        for a, r in results:
            if a["mode"] == "sessions" and r["progress"]:
                samples.append({"child": a["sessions"][:3],
                                "first_records": r["progress"][:8]})
                break
        for a, r in results:
            if a["mode"] == "alloc" and r["progress"]:
                samples.append({"alloc_child_first_records":
                                r["progress"][:10]})
                break
        cov = {
            "evaluations": masks + kth + ncalls + nbigdone,
            "big_length_calls": nbigdone,
            "distinct_nontrivial": len(triples) + len(sdig),
            "rule": RULE, "samples": samples,
            "exhaustive": True,
            "exhaustive_scope": "allocation-failure masks per workload "
                                "(all 2^7-1 for crps, 1 for dscore); inputs "
                                "and session schedules are sampled",
            "allocation_masks_applied": masks,
            "masks_with_a_failed_allocation": masks_failed_alloc,
            "kth_failure_sweeps": kth,
            "session_calls": ncalls, "sessions_completed": sessions_done,
            "sessions_planned": nses,
            "distinct_session_digests": len(sdig),
            "runs_per_hour": int((masks + sessions_done) / max(wall, 1e-9)
                                 * 3600),
            "seeds_per_hour": int(sessions_done / max(wall, 1e-9) * 3600),
            "simulated_time_s": 0.0,
            "faults_fired": {"allocation_failure_masks": masks_failed_alloc,
                             "kth_allocation_failures": kth},
            "reach_probes": dict(probes),
            "calls_per_entry_point": dict(entry_calls),
            "distinct_interleavings": len(sdig),
            "interleaving_measure": "distinct session event-log digests "
                                    "(call sequence + outcomes)",
            "inconclusive_runs": inconclusive,
            "real_components": REAL, "stub_components": STUB,
            "replays": replays,
        }
        ev = {"property_id": "C05", "tier": tier, "seed": seed,
              "level": LEVEL, "coverage": cov, "assumptions": ASSUMPTIONS,
              "wall_s": round(wall, 2),
              "violations": len(violations) + len(alloc_viol)}
        EVID.mkdir(exist_ok=True)
        (EVID / "C05.json").write_text(json.dumps(ev, indent=1, default=str))
        say(f"C05 tier={tier} seed={seed} masks={masks} kth={kth} "
            f"session_calls={ncalls} sessions={sessions_done}/{nses} "
            f"violations={len(violations) + len(alloc_viol)} "
            f"inconclusive={inconclusive} wall={wall:.1f}s rc={rc}")
        if sessions_done == 0 or masks == 0:
            say("HARNESS-ERROR property=C05 nothing was executed")
            return 2
        return rc
    finally:
        shutil.rmtree(sdir, ignore_errors=True)


def replay_quiet(path, sig, env, sdir):
    js = json.load(open(path))
    if js["part"] == "session":
        args = {"mode": "sessions", "seed": js["seed"],
                "sessions": [js["session"]], "keep": js["keep"],
                "optimize": js.get("optimize", False),
                "progress": str(sdir / f"confirm-{js['session']}.log")}
    elif js["part"] == "big":
        args = {"mode": "big", "seed": js["seed"], "big": [js["workload"]],
                "progress": str(sdir / f"confirm-b{js['workload']}.log")}
    else:
        args = {"mode": "alloc", "seed": js["seed"],
                "workloads": [js["workload"]],
                "progress": str(sdir / f"confirm-w{js['workload']}.log")}
    r = run_child(args, env, 600)
    kind, s, _ = classify(r)
    # the sanitizer's wording for one defect varies with heap layout (stack
    # exhaustion: SEGV / stack-overflow / wild write; a stale static buffer:
    # heap-buffer-overflow / use-after-free): the same kernel frame is enough
    return kind == "violation" and s.split("@")[-1] == sig.split("@")[-1]
