"""C09 - CSV files with comment headers round-trip through write_csv/read_csv.

Engine A: one simulated analyst process that over its life writes, overwrites
and reads many files in a workspace, keeps caller-supplied archives open across
several writes, changes directory, restarts, and sees its clock jump.  The
clock (csv.datetime), user name (csv.getuser) and cwd seams are owned by the
simulator.  Model: dict logical name -> (columns, cells, comments, format).
"""
import datetime as _dt
import math
import os
import re
import warnings
import zipfile
from pathlib import Path

import numpy as np

from ..core import Violation, short

RUNS = {"quick": 6000, "thorough": 90000}
SELFCHECK = {"quick": 32, "thorough": 96}
# fresh-interpreter lane of the self-check runs under python -O as well (the
# operations of this engine do not depend on an assert of the pinned code)
FRESH_OPTIMIZE = True
CHUNK = 50
LEVEL = "exploration"
RULE = ("each run = seeded history of 3-25 operations of one analyst process "
        "on a scratch workspace: write / overwrite a drawn frame under a "
        "logical name in one of five storage modes, read back through a drawn "
        "route (str/Path, absolute/relative, name variants), open/close/"
        "reopen caller archives, duplicate-member writes (must raise), chdir, "
        "restart (all Python objects dropped, every name re-read), clock "
        "ticks and jumps, failing getuser; a run is non-trivial when >=1 "
        "write succeeded and >=1 later read was compared with the model; "
        "distinct = different event-log digests")
INTERLEAVING_MEASURE = "distinct per-run operation-kind sequences"
REAL = ["hydrodiy.io.csv (all of it)", "pandas", "zipfile", "gzip",
        "real files in a scratch directory under /dev/shm"]
STUB = ["clock (csv.datetime replaced by a subclass whose now() reads the "
        "run's clock)", "user name (csv.getuser)", "working directory "
        "(os.chdir into drawn sub-directories)", "operation scheduler",
        "reference store model"]
ASSUMPTIONS = [
    "text cells are non-empty and single-line; every text column holds at "
    "least one cell that pandas cannot re-type (numeral-looking cells occur "
    "beside ordinary text; no booleans or NA tokens)",
    "comment keys [a-z0-9_]{1,25} not colliding with generated keys; values "
    "single-line strings without leading/trailing blanks, not made of dashes "
    "only",
    "NaN cells only in frames that also have an integer or text column (a "
    "line of empty fields only is a blank line to pandas)",
    "one logical name is used under one storage mode only",
    "no I/O error, torn write or crash injection: the property promises "
    "nothing under them",
]

RESERVED = {"nrow", "ncol", "author", "time_generated", "source_file",
            "work_dir", "python_environment", "python_version",
            "pandas_version", "numpy_version", "python_inc", "python_lib",
            "comment"}
COLCHARS = "abcXYZ019 -_"
TEXTS = [" lead", "trail ", "  two blanks", "ab,c", 'say "hi"', "a:b", "#tag",
         "x y", "plain", "k=v;w",
         "comma, and \"quote\"", "colon: here", "# hash first", "z-9_a",
         "it's", "a,b,c,d", "[1]", "end#"]
KEYCH = "abcdefghijklmnopqrstuvwxyz0123456789_"
VALS = ["simple", "with: colon", "a:b:c", "url http://x.y/z?q=1", "# hash",
        "time 12:30:05", "k : v", "Version 2.1 (beta)", "x" * 40,
        "dashes -- two", "comma, separated", "tab\tinside", "100%", ":lead",
        "trail:", "tooling in C#", "see issue #", "# starts with hash",
        "ends with dash -", "(parenthesised)", "quote \" inside",
        # numbers and flags given as such (they come back as text)
        0, 7, 0.0, 2.5, False, True,
        # a dashed stretch as long as the header's own rule lines
        "raw ---------- corrected", "1990----------2020"]
FORMATS = ["%0.5f", "%0.2f", "%0.8f", "%0.12f", "%.6e", "%0.3f"]
MODES = ["plain", "zip_csv", "zip_zip", "zip_noext", "member"]


class SimDateTime(_dt.datetime):
    _now = _dt.datetime(2020, 1, 1, 0, 0, 0)

    @classmethod
    def now(cls, tz=None):
        n = cls._now
        return cls(n.year, n.month, n.day, n.hour, n.minute, n.second)


def gen_colname(cs, lab, used):
    for attempt in range(20):
        n = cs.weighted(lab + ".len", [(1, 2), (3, 4), (8, 3), (20, 1)])
        if attempt > 3:
            n = max(n, 3)
        s = "".join(COLCHARS[cs.draw(f"{lab}.c{i}", len(COLCHARS))]
                    for i in range(n))
        if not cs.flip(lab + ".keep_outer_blanks", 25):
            s = s.strip()
        if s.strip() and s not in used:
            # names must not look numeric in a way that changes identity:
            # "019" is fine (kept as text by the reader's own header parse)
            used.add(s)
            return s
    s = f"col{len(used)}"
    used.add(s)
    return s


NUMLIKE = ["007", "12", "1e5", "3.50", "-4", "000123"]


def gen_long_frame(cs, lab):
    """Frames of about ten to twenty thousand rows (cells from one seeded
    generator, not one draw each).  The text column holds numeral-looking
    identifiers in one long stretch and ordinary text elsewhere: as a whole it
    is text, whatever a block of it looks like."""
    import pandas as pd
    nrow = cs.choice(lab + ".lnrow", [10001, 12000, 20001, 9999, 16385])
    rs = np.random.RandomState(cs.draw(lab + ".lseed", 1 << 30))
    ncol = cs.between(lab + ".lncol", 1, 3)
    used = set()
    cols = [gen_colname(cs, f"{lab}.ln{j}", used) for j in range(ncol)]
    kinds = ["text"] + [cs.choice(f"{lab}.lk{j}", ["float", "int"])
                        for j in range(1, ncol)]
    pattern = cs.choice(lab + ".lpat", ["numerals_first", "numerals_last",
                                        "all_text"])
    cut = cs.choice(lab + ".lcut", [10000, 10500, nrow - 1, 8192])
    cut = min(cut, nrow - 1)
    data, cells = {}, {}
    for c, k in zip(cols, kinds):
        if k == "text":
            ids = [f"{i:06d}" for i in range(nrow)]
            txt = [f"st_{i}" for i in range(nrow)]
            if pattern == "numerals_first":
                vals = ids[:cut] + txt[cut:]
            elif pattern == "numerals_last":
                vals = txt[:nrow - cut] + ids[nrow - cut:]
            else:
                vals = txt
            data[c] = vals
        elif k == "float":
            vals = [float(v) for v in (rs.uniform(-1000, 1000, nrow))]
            data[c] = np.array(vals, dtype=np.float64)
        else:
            vals = [int(v) for v in rs.randint(-10 ** 6, 10 ** 6, nrow)]
            data[c] = np.array(vals, dtype=np.int64)
        cells[c] = vals
    df = pd.DataFrame(data, columns=cols)
    return df, {"cols": cols, "kinds": kinds, "cells": cells, "nrow": nrow}


def gen_frame(cs, lab):
    import pandas as pd
    if cs.flip(lab + ".long", 2):
        return gen_long_frame(cs, lab)
    nrow = cs.weighted(lab + ".nrow", [(1, 2), (2, 2), (5, 3), (17, 2),
                                       (40, 1)])
    ncol = cs.between(lab + ".ncol", 1, 6)
    used = set()
    cols = []
    kinds = []
    for j in range(ncol):
        cols.append(gen_colname(cs, f"{lab}.n{j}", used))
        kinds.append(cs.weighted(f"{lab}.k{j}", [("float", 5), ("int", 3),
                                                 ("text", 3)]))
    has_anchor = any(k in ("int", "text") for k in kinds)
    data = {}
    cells = {}
    for j, (c, k) in enumerate(zip(cols, kinds)):
        vals = []
        whole = k == "float" and cs.flip(f"{lab}.v{j}.whole", 12)
        for r in range(nrow):
            l2 = f"{lab}.v{j}.{r}"
            if whole:
                # a float column holding whole numbers only, some of them
                # beyond the 64-bit integer range
                vals.append(cs.choice(l2 + ".w", [3.0, -12.0, 0.0, 2.0 ** 53,
                                                  1e19, -9.3e18, 2.0 ** 63,
                                                  1990.0, -2.0 ** 63, 4e18]))
            elif k == "float":
                cl = cs.weighted(l2 + ".cl", [("normal", 10), ("tiny", 1),
                                              ("huge", 1), ("negzero", 1),
                                              ("nan", 2 if has_anchor else 0),
                                              ("inf", 1), ("ninf", 1),
                                              ("intlike", 1)])
                u = cs.unit(l2 + ".u")
                if cl == "normal":
                    v = (u - 0.5) * 2000.0
                elif cl == "tiny":
                    v = (u - 0.5) * 1e-7
                elif cl == "huge":
                    v = (u - 0.5) * 1e15
                elif cl == "negzero":
                    v = -0.0
                elif cl == "nan":
                    v = float("nan")
                elif cl == "inf":
                    v = float("inf")
                elif cl == "ninf":
                    v = float("-inf")
                else:
                    v = float(int(u * 100))
                vals.append(v)
            elif k == "int":
                cl = cs.weighted(l2 + ".cl", [("small", 8), ("big", 1),
                                              ("neg", 2)])
                if cl == "small":
                    v = cs.draw(l2 + ".i", 1000)
                elif cl == "big":
                    v = (1 << 62) - cs.draw(l2 + ".i", 1000)
                else:
                    v = -cs.draw(l2 + ".i", 100000)
                vals.append(int(v))
            else:
                vals.append(TEXTS[cs.draw(l2 + ".t", len(TEXTS))])
        if k == "text" and nrow > 1 and cs.flip(f"{lab}.v{j}.numlike", 25):
            # numeral-looking cells beside ordinary text: the column as a
            # whole is still text (the first cell stays as drawn)
            for r in range(1, nrow):
                if cs.flip(f"{lab}.v{j}.{r}.nl", 50):
                    vals[r] = NUMLIKE[cs.draw(f"{lab}.v{j}.{r}.nlv",
                                              len(NUMLIKE))]
        cells[c] = vals
        if k == "float":
            data[c] = np.array(vals, dtype=np.float64)
        elif k == "int":
            # integer columns come in every width and signedness that holds
            # their values (frames built from typed arrays, rasters, counters)
            if min(vals) >= 0 and cs.flip(f"{lab}.v{j}.ubig", 8):
                r0 = cs.draw(f"{lab}.v{j}.ubig.r", nrow)
                vals[r0] = (1 << 64) - 1 - cs.draw(f"{lab}.v{j}.ubig.v", 1000)
                cells[c] = vals
            fits = [dt for dt in ("int64", "int64", "int32", "int16", "int8",
                                  "uint8", "uint16", "uint32", "uint64")
                    if np.iinfo(dt).min <= min(vals)
                    and max(vals) <= np.iinfo(dt).max]
            dt = fits[cs.draw(f"{lab}.v{j}.width", len(fits))]
            if dt != "int64":
                ctx_hit_width[0] += 1
            data[c] = np.array(vals, dtype=dt)
        else:
            data[c] = vals
    df = pd.DataFrame(data, columns=cols)
    return df, {"cols": cols, "kinds": kinds, "cells": cells, "nrow": nrow}


ctx_hit_width = [0]     # integer columns of another width than int64 (probe)


def gen_comment(cs, lab):
    n = cs.between(lab + ".n", 0, 4)
    com = {}
    for j in range(n):
        ln = cs.weighted(f"{lab}.kl{j}", [(3, 3), (10, 3), (21, 1), (22, 1),
                                          (23, 1), (24, 1), (25, 2)])
        key = "".join(KEYCH[cs.draw(f"{lab}.k{j}.{i}", len(KEYCH))]
                      for i in range(ln))
        if key in RESERVED or key in com or key.startswith("comment"):
            key = f"k{j}_" + key[:20]
        com[key] = VALS[cs.draw(f"{lab}.v{j}", len(VALS))]
    return com


def tol_for(fmt, v):
    if fmt.endswith("e"):
        d = int(re.search(r"\.(\d+)e", fmt).group(1))
        if v == 0:
            return 0.0
        return 0.5000001 * 10.0 ** (math.floor(math.log10(abs(v))) - d) \
            + abs(v) * 1e-15
    d = int(re.search(r"\.(\d+)f", fmt).group(1))
    return 0.5000001 * 10.0 ** (-d) + abs(v) * 1e-15


def compare(df, comment, rec, where, opkind):
    def bad(inv, detail):
        raise Violation(inv, f"{where}: {detail}", opkind)
    fm = rec["frame"]
    if [str(c) for c in df.columns] != fm["cols"]:
        bad("column_names_differ", f"{list(df.columns)} != {fm['cols']}")
    if len(df) != fm["nrow"]:
        bad("row_count_differs", f"{len(df)} != {fm['nrow']}")
    for c, k in zip(fm["cols"], fm["kinds"]):
        got = df[c].tolist()
        want = fm["cells"][c]
        for r, (g, w) in enumerate(zip(got, want)):
            if k == "text":
                if not isinstance(g, str) or g != w:
                    bad("text_cell_differs", f"[{r},{c!r}] {g!r} != {w!r}")
            elif k == "int":
                try:
                    # a number, equal to the one written (text that merely
                    # spells the number is not a numeric value)
                    ok = not isinstance(g, (str, bytes)) and \
                        int(g) == w and float(g) == float(int(g))
                except Exception:
                    ok = False
                if not ok:
                    bad("int_cell_differs", f"[{r},{c!r}] {g!r} != {w!r}")
            else:
                try:
                    if isinstance(g, (str, bytes)):
                        raise TypeError("text")
                    g = float(g)
                except Exception:
                    bad("float_cell_differs", f"[{r},{c!r}] {g!r} not a number"
                        f" (wanted {w!r})")
                if w != w:
                    if g == g:
                        bad("float_cell_differs", f"[{r},{c!r}] {g} != NaN")
                elif abs(w) == float("inf"):
                    if g != w:
                        bad("float_cell_differs", f"[{r},{c!r}] {g} != {w}")
                elif not (abs(g - w) <= tol_for(rec["fmt"], w)):
                    bad("float_cell_differs", f"[{r},{c!r}] {g!r} != {w!r} at "
                        f"format {rec['fmt']}")
    for k, v in rec["comment"].items():
        if k not in comment:
            bad("comment_lost", f"key {k!r} missing; got keys "
                f"{sorted(comment)}")
        same = comment[k] == v if isinstance(v, str) else \
            (comment[k] == str(v) or (type(comment[k]) is type(v) and
                                      comment[k] == v))
        if not same:
            bad("comment_changed", f"{k!r}: {comment[k]!r} != {v!r}")
    if str(comment.get("nrow")) != str(fm["nrow"]) or \
            str(comment.get("ncol")) != str(len(fm["cols"])):
        bad("counts_wrong", f"nrow/ncol {comment.get('nrow')}/"
            f"{comment.get('ncol')} != {fm['nrow']}/{len(fm['cols'])}")


class World:
    def __init__(self, cs, log, ctx):
        self.cs = cs
        self.log = log
        self.ctx = ctx
        self.root = Path(os.path.realpath(str(ctx.workdir)))
        self.dirs = [self.root, self.root / "a", self.root / "a" / "b",
                     self.root / "out"]
        for d in self.dirs:
            d.mkdir(parents=True, exist_ok=True)
        self.script = self.root / "script.py"
        self.script.write_text("# source\n")
        self.store = {}       # logical name -> record
        self.archives = {}    # archive name -> {"path","zf","mode","members"}
        self.nname = 0
        self.clock = _dt.datetime(2020, 1, 1, 12, 0, 0)
        self.user_fails = False
        self.wrote = False
        self.compared = False

    def path_arg(self, p, lab):
        """Present an absolute path as str/Path, absolute/cwd-relative."""
        cs = self.cs
        p = Path(p)
        if cs.flip(lab + ".rel", 40):
            p = Path(os.path.relpath(str(p), os.getcwd()))
        return str(p) if cs.flip(lab + ".str", 50) else p

    def set_seams(self, csvmod):
        SimDateTime._now = self.clock
        world = self

        def fake_getuser():
            if world.user_fails:
                raise KeyError("getpwuid(): uid not found")
            return "analyst"
        csvmod.getuser = fake_getuser

    # ---- operations -----------------------------------------------------
    def op_write(self, csvmod, overwrite):
        cs = self.cs
        if overwrite and self.store:
            names = sorted(self.store)
            lname = names[cs.draw("which", len(names))]
            rec0 = self.store[lname]
            mode = rec0["mode"]
            if rec0.get("frozen"):
                return
            if mode in ("plain", "zip_csv") and rec0.get("defined", True) \
                    and cs.flip("switch_mode", 30):
                # same name, other storage: the older sibling file stays
                mode = "zip_csv" if mode == "plain" else "plain"
        else:
            self.nname += 1
            mode = cs.choice("mode", MODES)
            style = cs.choice("namestyle", ["f{}", "f{}", "d.{}", "s {}",
                                            "U_{}-x", "c{}.csv"])
            if mode == "zip_noext" and "." in style:
                style = "f{}"      # 'd.1' without extension reads as suffix .1
            if style == "c{}.csv" and mode != "zip_zip":
                style = "f{}"      # only the 'name.csv.zip' convention
            lname = style.format(self.nname)
            if mode == "member" and not any(a["mode"] == "w"
                                            for a in self.archives.values()):
                if len(self.archives) < 3:
                    self.op_open_archive()
                else:
                    mode = cs.choice("mode2", MODES[:4])
                    if mode == "zip_noext":
                        lname = lname.replace(".", "_")
            rec0 = None
        df, fm = gen_frame(cs, "fr")
        comment = gen_comment(cs, "cm")
        fmt = cs.choice("fmt", FORMATS)
        wsi = not cs.flip("no_sys_info", 30)
        author = None if cs.flip("author_none", 70) else "jane doe"
        kw = dict(float_format=fmt, write_sys_info=wsi, author=author)
        src = self.path_arg(self.script, "src")
        rec = {"mode": mode, "frame": fm, "comment": comment, "fmt": fmt,
               "defined": True}
        self.set_seams(csvmod)
        SimDateTime._now = self.clock
        out_of_range = self.clock.year < 1980 or self.clock.year > 2107
        self.log.ev("write", lname, mode, overwrite, fm["cols"], fm["kinds"],
                    fm["nrow"], comment, fmt, wsi, author, str(self.clock))
        try:
            if mode == "member":
                if rec0 is not None:
                    aname = rec0["archive"]
                    arc = self.archives[aname]
                    # same member again: must raise ValueError, archive intact
                    if arc["mode"] != "w":
                        return
                    try:
                        csvmod.write_csv(df, rec0["member"], comment, src,
                                         archive=arc["zf"], **kw)
                    except Exception:
                        self.ctx.hit("fault.duplicate_member_rejected")
                        self.log.ev("write.duplicate_rejected", lname)
                        return
                    raise Violation("duplicate_member_accepted",
                                    f"second write of member {rec0['member']!r}"
                                    " was accepted (two members of one name in "
                                    "the archive)", "write")
                wopen = sorted(a for a, v in self.archives.items()
                               if v["mode"] == "w")
                aname = wopen[cs.draw("arc", len(wopen))]
                arc = self.archives[aname]
                mdir = cs.choice("memberdir", ["", "sub/", "sub/dir/", "x y/"])
                base = cs.choice("memberbase", [lname, "data", "flow", lname])
                member = mdir + base + ".csv"
                if any(r.get("archive") == aname and r.get("member") == member
                       for r in self.store.values()):
                    member = mdir + lname + ".csv"   # really the same member
                marg = member if cs.flip("m.str", 60) else Path(member)
                # an explicit compress flag is documented to be ignored when
                # an archive is supplied
                ck = cs.choice("compress_with_archive", [None, True, False])
                kw2 = dict(kw) if ck is None else dict(kw, compress=ck)
                csvmod.write_csv(df, marg, comment, src, archive=arc["zf"],
                                 **kw2)
                rec.update(archive=aname, member=member)
                arc["members"].append(lname)
            else:
                d = self.dirs[cs.draw("dir", len(self.dirs))] if rec0 is None \
                    else Path(rec0["dir"])
                ext = {"plain": ".csv", "zip_csv": ".csv", "zip_zip": ".zip",
                       "zip_noext": ""}[mode]
                fpath = d / (lname + ext)
                farg = self.path_arg(fpath, "fn")
                if cs.flip("kwstyle", 35):
                    csvmod.write_csv(data=df, source_file=src, comment=comment,
                                     filename=farg,
                                     compress=(mode != "plain"), **kw)
                else:
                    csvmod.write_csv(df, farg, comment, src,
                                     compress=(mode != "plain"), **kw)
                rec.update(dir=str(d), path=str(fpath))
        except Violation:
            raise
        except Exception as e:
            if out_of_range and mode != "plain":
                # ZIP cannot hold the time stamp: write may fail; nothing is
                # concluded about this name until it is rewritten
                self.log.ev("write.failed_out_of_range_clock",
                            type(e).__name__)
                self.ctx.hit("fault.clock_outside_zip_range")
                if lname in self.store:
                    # the failed attempt may have left a truncated archive
                    # beside the older file: nothing more is concluded about
                    # this name
                    self.store[lname]["defined"] = False
                    self.store[lname]["frozen"] = True
                return
            raise Violation("write_failed", f"write_csv of {lname} in mode "
                            f"{mode} raised {e!r}", "write")
        if rec0 is not None and rec0["mode"] != mode:
            rec["frozen"] = True
            rec["switched_from"] = rec0["mode"]
            rec["older"] = rec0
            self.ctx.hit("fault.stale_sibling_other_storage_" + rec0["mode"])
        self.store[lname] = rec
        self.wrote = True
        self.ctx.hit("probe.write_" + mode)
        if overwrite and rec0 is not None:
            self.ctx.hit("probe.overwrite_same_name")

    def read_one(self, csvmod, lname, opkind):
        cs = self.cs
        rec = self.store[lname]
        if not rec.get("defined", True):
            return
        self.set_seams(csvmod)
        mode = rec["mode"]
        with warnings.catch_warnings():
            warnings.simplefilter("ignore")
            try:
                if mode == "member":
                    arc = self.archives[rec["archive"]]
                    if arc["mode"] != "r":
                        return
                    marg = rec["member"] if cs.flip("m.str", 60) \
                        else Path(rec["member"])
                    self.log.ev("read", lname, mode, str(marg))
                    df, com = csvmod.read_csv(marg, archive=arc["zf"])
                else:
                    p = Path(rec["path"])
                    variants = [p]
                    if rec.get("switched_from") == "zip_csv":
                        # plain file written after a compressed one: the
                        # exact name must give the plain (latest) frame
                        pass
                    elif rec.get("switched_from") == "plain":
                        # compressed file written after a plain one: the
                        # .zip name gives the latest frame; the .csv name is
                        # shadowed by the stale plain file (known finding)
                        if cs.flip("shadowed_name", 50):
                            self.read_shadowed(csvmod, lname, rec, p, opkind)
                            self.ctx.hit("probe.read_compared")
                            return
                        variants = [p.with_suffix(".zip")]
                    elif mode == "plain":
                        variants.append(p.with_suffix(""))
                    elif mode == "zip_csv":
                        variants += [p.with_suffix(".zip"), p.with_suffix("")]
                    elif mode == "zip_zip":
                        variants += [p.with_suffix(".csv"), p.with_suffix("")]
                    elif mode == "zip_noext":
                        variants += [Path(str(p) + ".zip"),
                                     Path(str(p) + ".csv")]
                    if p.name.endswith(".csv.zip"):
                        variants = [p]
                    if "." in p.stem:
                        # the reader resolves names through their stem: an
                        # extension-less spelling of 'd.1.csv' is not a name it
                        # accepts
                        variants = [v for v in variants if v.suffix != ""
                                    and "." in v.stem]
                    v = variants[0] if cs.flip("canon", 60) or \
                        len(variants) == 1 else \
                        variants[cs.draw("variant", len(variants))]
                    farg = self.path_arg(v, "rd")
                    self.log.ev("read", lname, mode,
                                str(farg).replace(str(self.root), "<ws>"))
                    df, com = csvmod.read_csv(farg)
            except Violation:
                raise
            except Exception as e:
                raise Violation("read_failed", f"read_csv of {lname} written "
                                f"in mode {mode} raised {e!r}", opkind)
        compare(df, com, rec, f"{lname} ({mode})", opkind)
        self.compared = True
        self.ctx.hit("probe.read_compared")
        self.ctx.hit("probe.read_" + mode)

    def read_shadowed(self, csvmod, lname, rec, p, opkind):
        """read_csv("x.csv") after write_csv(.., "x.csv", compress=False) and
        a later write_csv(.., "x.csv", compress=True): the property asks for
        the latest frame; the real code returns the stale plain file."""
        sig = "C09/stale_plain_file_shadows_newer_zip"
        farg = self.path_arg(p, "rd")
        self.log.ev("read.shadowed", lname,
                    str(farg).replace(str(self.root), "<ws>"))
        with warnings.catch_warnings():
            warnings.simplefilter("ignore")
            try:
                df, com = csvmod.read_csv(farg)
            except Exception as e:
                raise Violation("read_failed", f"read_csv of {lname} raised "
                                f"{e!r}", opkind)
        try:
            compare(df, com, rec, f"{lname} (zip_csv after plain)", opkind)
            self.compared = True
            return
        except Violation as v:
            if not self.ctx.known(sig):
                raise Violation("stale_plain_file_shadows_newer_zip",
                                f"{lname}: read_csv by the .csv name returned "
                                f"not the latest frame: {v.detail}", opkind)
        # listed known finding: the real behaviour is 'the older plain file'
        compare(df, com, rec["older"], f"{lname} (stale plain sibling)",
                opkind)
        self.compared = True

    def op_read(self, csvmod):
        if not self.store:
            return
        names = sorted(self.store)
        self.read_one(csvmod, names[self.cs.draw("which", len(names))], "read")

    def op_rewrite_from_read(self, csvmod):
        """A frame returned by read_csv is filtered and written under a new
        name with new comments (the ordinary read-modify-write of an analyst);
        the new file must describe the new frame only."""
        cs = self.cs
        cands = [n for n in sorted(self.store)
                 if self.store[n].get("defined", True)
                 and self.store[n]["mode"] in ("plain", "zip_csv")
                 and not self.store[n].get("switched_from")]
        if not cands:
            return
        src = cands[cs.draw("src", len(cands))]
        rec0 = self.store[src]
        self.set_seams(csvmod)
        with warnings.catch_warnings():
            warnings.simplefilter("ignore")
            try:
                df, _ = csvmod.read_csv(self.path_arg(rec0["path"], "rs"))
            except Exception as e:
                raise Violation("read_failed", f"read_csv of {src} raised "
                                f"{e!r}", "rewrite_from_read")
        fm0 = rec0["frame"]
        if [str(c) for c in df.columns] != fm0["cols"]:
            raise Violation("column_names_differ",
                            f"{src}: {list(df.columns)} != {fm0['cols']}",
                            "rewrite_from_read")
        nrow = 1 + cs.draw("nrow", fm0["nrow"])
        ncol = 1 + cs.draw("ncol", len(fm0["cols"]))
        how = cs.choice("how", ["iloc", "copy_iloc", "loc_cols"])
        if how == "iloc":
            df2 = df.iloc[:nrow, :ncol]
        elif how == "copy_iloc":
            df2 = df.copy().iloc[:nrow, :ncol]
        else:
            df2 = df.loc[df.index[:nrow], list(df.columns[:ncol])]
        cols = fm0["cols"][:ncol]
        # cells as they were read (text/int exact, floats at the precision of
        # the first file): the model of the second file is the frame handed in
        cells = {}
        kinds = fm0["kinds"][:ncol]
        for c, k in zip(cols, kinds):
            vals = df2[c].tolist()
            cells[c] = [float(v) for v in vals] if k == "float" else \
                ([int(v) for v in vals] if k == "int" else list(vals))
        if any(k == "float" and any(v != v for v in cells[c])
               for c, k in zip(cols, kinds)) and \
                not any(k in ("int", "text") for k in kinds):
            return        # a row of NaN only would be a blank line
        def numeral(v):
            try:
                float(v)
                return True
            except (TypeError, ValueError):
                return False
        if any(k == "text" and all(numeral(v) for v in cells[c])
               for c, k in zip(cols, kinds)):
            return        # the kept rows of a text column all look like
            #               numbers: as a column of its own it is not text
        comment = gen_comment(cs, "cm2")
        fmt = cs.choice("fmt", FORMATS)
        self.nname += 1
        lname = f"r{self.nname}"
        mode = cs.choice("mode", ["plain", "zip_csv"])
        d = self.dirs[cs.draw("dir", len(self.dirs))]
        fpath = d / (lname + ".csv")
        self.log.ev("rewrite_from_read", src, lname, mode, how, nrow, ncol,
                    comment, fmt)
        SimDateTime._now = self.clock
        try:
            csvmod.write_csv(df2, self.path_arg(fpath, "fn"), comment,
                             self.path_arg(self.script, "src"),
                             compress=(mode != "plain"), float_format=fmt)
        except Exception as e:
            if (self.clock.year < 1980 or self.clock.year > 2107) and \
                    mode != "plain":
                return
            raise Violation("write_failed", f"write_csv of a frame read from "
                            f"{src} raised {e!r}", "rewrite_from_read")
        self.store[lname] = {"mode": mode, "comment": comment, "fmt": fmt,
                             "defined": True, "dir": str(d),
                             "path": str(fpath),
                             "frame": {"cols": cols, "kinds": kinds,
                                       "cells": cells, "nrow": nrow}}
        self.wrote = True
        self.ctx.hit("probe.frame_from_read_csv_written_again")
        self.read_one(csvmod, lname, "rewrite_from_read")

    def op_rejected_write(self, csvmod):
        """write_csv with a source_file that does not exist is rejected with
        ValueError; what was written under that name before stays readable."""
        cs = self.cs
        cands = [n for n in sorted(self.store)
                 if self.store[n].get("defined", True)
                 and self.store[n]["mode"] != "member"
                 and not self.store[n].get("frozen")]
        if not cands:
            return
        lname = cands[cs.draw("which", len(cands))]
        rec = self.store[lname]
        df, _ = gen_frame(cs, "rj")
        self.set_seams(csvmod)
        self.log.ev("rejected_write", lname, rec["mode"])
        try:
            csvmod.write_csv(df, self.path_arg(rec["path"], "fn"), {"x": "y"},
                             self.root / "no_such_script.py",
                             compress=(rec["mode"] != "plain"))
        except Exception:
            self.ctx.hit("fault.write_rejected_missing_source_file")
        else:
            # accepted after all: then it is an ordinary overwrite of the name
            # and says nothing here; the name is not used further
            rec["defined"] = False
            rec["frozen"] = True
            return
        self.read_one(csvmod, lname, "rejected_write")

    def op_disk_fault_write(self, csvmod):
        """The disk fills up (file-size limit, hysim/faults.py) while a name is
        written again: write_csv either raises - then nothing is concluded
        about that name until it is written again - or returns, and then the
        frame must read back.  The next clean write of the name must succeed
        and read back, and every other name is still intact (checked by the
        later reads and restarts)."""
        import gc
        from hysim.faults import file_size_limit
        cs = self.cs
        cands = [n for n in sorted(self.store)
                 if self.store[n]["mode"] != "member"
                 and not self.store[n].get("frozen")
                 and not self.store[n].get("switched_from")]
        if not cands:
            return
        lname = cands[cs.draw("which", len(cands))]
        rec0 = self.store[lname]
        mode = rec0["mode"]
        limit = cs.choice("limit", [0, 1, 17, 64, 200, 512, 1500, 4096, 8192,
                                    20000])
        self.set_seams(csvmod)
        if self.clock.year < 1980 or self.clock.year > 2107:
            return
        attempts = [limit, None] if cs.flip("recover", 75) else [limit]
        for lim in attempts:
            df, fm = gen_frame(cs, "df")
            comment = gen_comment(cs, "dc")
            fmt = cs.choice("fmt", FORMATS)
            wsi = not cs.flip("no_sys_info", 30)
            rec = {"mode": mode, "frame": fm, "comment": comment, "fmt": fmt,
                   "defined": True, "dir": rec0["dir"], "path": rec0["path"]}
            farg = self.path_arg(rec0["path"], "fn")
            self.log.ev("disk_fault_write", lname, mode, lim, fm["cols"],
                        fm["nrow"], comment, fmt, wsi)
            failed = None
            # the handle a failed write_csv leaves open is finalised below; the
            # ResourceWarning about it is not what this operation is about
            wctx = warnings.catch_warnings()
            wctx.__enter__()
            warnings.simplefilter("ignore", ResourceWarning)
            try:
                if lim is None:
                    csvmod.write_csv(df, farg, comment, self.script,
                                     compress=(mode != "plain"),
                                     float_format=fmt, write_sys_info=wsi)
                else:
                    with file_size_limit(lim):
                        csvmod.write_csv(df, farg, comment, self.script,
                                         compress=(mode != "plain"),
                                         float_format=fmt, write_sys_info=wsi)
            except Exception as e:
                failed = repr(e)
            gc.collect()   # handles the failed call leaked are finalised now
            wctx.__exit__(None, None, None)
            if failed is not None:
                if lim is None:
                    raise Violation("write_failed", f"write_csv of {lname} in "
                                    f"mode {mode} after an earlier write of "
                                    f"that name hit a full disk raised "
                                    f"{failed}", "disk_fault_write")
                self.ctx.hit("fault.disk_full_during_write")
                self.log.ev("disk_fault_write.raised", lname)
                rec0["defined"] = False
                continue
            if lim is not None:
                self.ctx.hit("probe.disk_limit_not_reached")
            else:
                self.ctx.hit("probe.clean_write_after_disk_fault")
            self.store[lname] = rec
            rec0 = rec
            self.wrote = True
            self.read_one(csvmod, lname, "disk_fault_write")

    def op_open_archive(self):
        n = len(self.archives) + 1
        aname = f"arc{n}"
        d = self.dirs[self.cs.draw("dir", len(self.dirs))]
        p = d / (aname + ".zip")
        zf = zipfile.ZipFile(str(p), "w", compression=zipfile.ZIP_DEFLATED)
        self.archives[aname] = {"path": str(p), "zf": zf, "mode": "w",
                                "members": []}
        self.log.ev("open_archive", aname, str(p.relative_to(self.root)))

    def op_short_lived_archives(self, csvmod):
        """One archive per station: each is created, gets a member of the same
        name, is closed, read back and forgotten before the next one."""
        cs = self.cs
        k = cs.between("narc", 3, 7)
        df, fm = gen_frame(cs, "sl")
        if fm["nrow"] > 100:
            return
        comment = gen_comment(cs, "slc")
        fmt = cs.choice("fmt", FORMATS)
        d = self.dirs[cs.draw("dir", len(self.dirs))]
        self.nname += 1
        self.log.ev("short_lived_archives", k, fm["cols"], fm["nrow"], fmt)
        self.set_seams(csvmod)
        SimDateTime._now = self.clock
        if self.clock.year < 1980 or self.clock.year > 2107:
            return
        rec = {"mode": "member", "frame": fm, "comment": comment, "fmt": fmt}
        for i in range(k):
            p = d / f"station{self.nname}_{i}.zip"
            try:
                zf = zipfile.ZipFile(str(p), "w",
                                     compression=zipfile.ZIP_DEFLATED)
                csvmod.write_csv(df, "folder_a/data.csv", comment,
                                 self.path_arg(self.script, "src"), archive=zf,
                                 float_format=fmt)
                zf.close()
                del zf
            except Exception as e:
                raise Violation("write_failed", f"member folder_a/data.csv of "
                                f"a fresh archive (number {i + 1} of {k} made "
                                f"one after the other) raised {e!r}",
                                "short_lived_archives")
            try:
                with zipfile.ZipFile(str(p), "r") as zr:
                    back, com = csvmod.read_csv("folder_a/data.csv",
                                                archive=zr)
            except Exception as e:
                raise Violation("read_failed", f"member of fresh archive "
                                f"{i + 1} of {k} raised {e!r}",
                                "short_lived_archives")
            compare(back, com, rec, f"fresh archive {i + 1} of {k}",
                    "short_lived_archives")
        self.compared = True
        self.ctx.hit("probe.short_lived_archives")

    def op_close_reopen(self):
        cs = self.cs
        if not self.archives:
            return
        names = sorted(self.archives)
        aname = names[cs.draw("which", len(names))]
        arc = self.archives[aname]
        if arc["mode"] == "w":
            arc["zf"].close()
            arc["zf"] = zipfile.ZipFile(arc["path"], "r")
            arc["mode"] = "r"
            self.log.ev("reopen_archive_for_read", aname)
            self.ctx.hit("probe.archive_reopened")

    def op_chdir(self):
        d = self.dirs[self.cs.draw("dir", len(self.dirs))]
        os.chdir(str(d))
        self.log.ev("chdir", str(d.relative_to(self.root)) or ".")

    def op_tick(self):
        cs = self.cs
        k = cs.weighted("tick", [("secs", 5), ("days", 3), ("back", 2),
                                 ("yearend", 2), ("y1979", 1), ("y2110", 1),
                                 ("userfail", 3), ("userok", 2)])
        if k == "secs":
            self.clock += _dt.timedelta(seconds=1 + cs.draw("s", 7200))
        elif k == "days":
            self.clock += _dt.timedelta(days=1 + cs.draw("d", 900))
        elif k == "back":
            self.clock -= _dt.timedelta(days=1 + cs.draw("d", 900))
            self.ctx.hit("fault.clock_jump_backwards")
        elif k == "yearend":
            self.clock = _dt.datetime(2019 + cs.draw("y", 10), 12, 31, 23, 59,
                                      59)
        elif k == "y1979":
            self.clock = _dt.datetime(1979, 6, 1, 1, 2, 3)
        elif k == "y2110":
            self.clock = _dt.datetime(2110, 2, 3, 4, 5, 6)
        elif k == "userfail":
            self.user_fails = True
            self.ctx.hit("fault.getuser_raises")
        else:
            self.user_fails = False
        if self.clock.year < 1975:
            self.clock = _dt.datetime(1979, 1, 1)
        self.log.ev("tick", k, str(self.clock), self.user_fails)

    def op_restart(self, csvmod):
        """Process restart: every Python object is dropped; the directory
        stays; every name ever written reads back as its latest frame."""
        for aname in sorted(self.archives):
            arc = self.archives[aname]
            arc["zf"].close()
            arc["zf"] = zipfile.ZipFile(arc["path"], "r")
            arc["mode"] = "r"
        os.chdir(str(self.root))
        self.log.ev("restart", len(self.store))
        self.ctx.hit("fault.restart")
        for lname in sorted(self.store):
            self.read_one(csvmod, lname, "restart")

    def close(self):
        for arc in self.archives.values():
            try:
                arc["zf"].close()
            except Exception:
                pass


OPS = [("write", 10), ("overwrite", 4), ("read", 10), ("rewrite_from_read", 4),
       ("rejected_write", 3), ("disk_fault_write", 3),
       ("open_archive", 3),
       ("reopen_archive", 3), ("chdir", 3), ("tick", 4), ("restart", 2),
       ("short_lived_archives", 2)]


def run(cs, log, ctx):
    from hydrodiy.io import csv as csvmod
    real_dt, real_getuser = csvmod.datetime, csvmod.getuser
    csvmod.datetime = SimDateTime
    w = None
    try:
        ctx.workdir.mkdir(parents=True, exist_ok=True)
        w = World(cs, log, ctx)
        os.chdir(str(w.root))
        with cs.span("config"):
            import time as _time
            tz = cs.choice("TZ", ["UTC", "Australia/Sydney", "America/New_York",
                                  "Asia/Kolkata"])
            os.environ["TZ"] = tz          # this run's process only (forked)
            _time.tzset()
            # standard variables of the process environment that a csv writer
            # has no business depending on
            sde = cs.choice("SOURCE_DATE_EPOCH", [None, None, "0", "315532800",
                                                  "4102444800"])
            if sde is None:
                os.environ.pop("SOURCE_DATE_EPOCH", None)
            else:
                os.environ["SOURCE_DATE_EPOCH"] = sde
            # a process that turns warnings into errors (python -W error,
            # a test runner's filterwarnings=error): writes then fail if the
            # library trips over a warning half-way; reads stay shielded
            werror = cs.flip("warnings_as_errors", 25)
            log.ev("env", tz, sde, werror)
            if werror:
                ctx.hit("fault.warnings_are_errors")
            nsteps = cs.between("nsteps", 3, 25)
            enabled = {k: not cs.flip("off." + k, 15) for k, _ in OPS}
            enabled["write"] = True
            enabled["read"] = True
            log.ev("config", nsteps, sorted(k for k in enabled if enabled[k]))
        if werror:
            warnings.simplefilter("error")
        for step in range(nsteps):
            with cs.span("step"):
                kind = cs.weighted("op", [(k, wgt) for k, wgt in OPS
                                          if enabled[k]])
                log.kind(kind)
                ctx.hit("steps")
                if kind == "write":
                    w.op_write(csvmod, False)
                elif kind == "overwrite":
                    w.op_write(csvmod, True)
                elif kind == "read":
                    w.op_read(csvmod)
                elif kind == "rewrite_from_read":
                    w.op_rewrite_from_read(csvmod)
                elif kind == "rejected_write":
                    w.op_rejected_write(csvmod)
                elif kind == "disk_fault_write":
                    w.op_disk_fault_write(csvmod)
                elif kind == "short_lived_archives":
                    w.op_short_lived_archives(csvmod)
                elif kind == "open_archive":
                    w.op_open_archive()
                elif kind == "reopen_archive":
                    w.op_close_reopen()
                elif kind == "chdir":
                    w.op_chdir()
                elif kind == "tick":
                    w.op_tick()
                elif kind == "restart":
                    w.op_restart(csvmod)
        with cs.span("final"):
            log.kind("final_restart")
            w.op_restart(csvmod)
        if w.wrote and w.compared:
            ctx.hit("nontrivial")
        if ctx_hit_width[0]:
            ctx.hit("probe.integer_column_of_other_width", ctx_hit_width[0])
    finally:
        csvmod.datetime = real_dt
        csvmod.getuser = real_getuser
        if w is not None:
            w.close()


def warmup():
    import pandas, zipfile, gzip  # noqa: F401,E401
    from hydrodiy.io import csv  # noqa: F401
