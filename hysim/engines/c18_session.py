"""C18 - computations leave their arguments untouched and are repeatable.

Engine C: one long-lived interpreter session.  A pool of argument objects
(arrays carved out of canary-guarded parent blocks: contiguous, strided,
reversed, Fortran-ordered, float32/int64; pandas objects; grids; catchments;
transforms; polygons; reusable answer buffers) persists across 60-250 calls of
hydrodiy's public computational functions.  The plan of calls is drawn first
(which callable, which pool objects - possibly the same object for two
parameters or overlapping views - which options, which numpy seed, and where an
earlier call is re-issued); then it is executed.

Oracles.  Around every call every pool object is snapshotted: afterwards every
bound argument and every *other* pool object must be bit-identical and every
canary intact (grids: cell values numerically identical).  A re-issued call
must return a bit-identical result (and the same exception class if it
raised).  A second session in a fresh interpreter with another hash seed runs
the same calls in another order; per-call results must agree.
"""
import hashlib
import json
import os
import subprocess
import sys
import warnings

import numpy as np

from ..core import Violation, short

RUNS = {"quick": 480, "thorough": 20000}
SELFCHECK = {"quick": 8, "thorough": 24}
CROSS = {"quick": 16, "thorough": 256}
CHUNK = 10
MINIMISE = {"max_execs": 120, "max_secs": 100.0}
LEVEL = "exploration"
RULE = ("each run = one simulated interpreter session: a drawn pool of 30-60 "
        "argument objects and a drawn plan of 60-250 calls over a catalogue of "
        "hydrodiy callables; bindings may share one object between two "
        "parameters or use overlapping views; ~30% of the steps re-issue an "
        "earlier call 1-60 steps later; a session is non-trivial when >=20 "
        "calls returned (did not raise) and >=5 re-issues were compared; "
        "sessions are distinct when their event-log digests differ; a sample "
        "of sessions is replayed in another call order in a fresh interpreter "
        "(other hash seed) and compared call by call")
INTERLEAVING_MEASURE = "distinct per-session sequences of catalogue entries"
REAL = ["all of hydrodiy.stat / data / gis / plot reached by the catalogue "
        "(real kernels rebuilt from the working tree)", "numpy, pandas, "
        "scipy, matplotlib (Agg)"]
STUB = ["call scheduler and argument binder", "argument pool with canary "
        "guards", "numpy global RNG seeded by the harness before each call",
        "snapshot / digest code"]
ASSUMPTIONS = [
    "documented output buffers (points_inside_polygon(inside=...)) and "
    "attributes that a method is documented to set on self are results, not "
    "arguments",
    "grid arguments may change dtype (the statement only asks that cell "
    "values are kept)",
    "in-process re-issue is compared bitwise; the cross-interpreter comparison "
    "falls back to 1e-13 relative and counts such cases",
    "calls that raise are recorded (the exception class must repeat) and "
    "otherwise ignored",
]

# index units other than ns make var2h read past its buffers on the tree
# before the C05 kernel fix (result then depends on heap garbage)
VAR2H_UNITS = [["ns"], ["ns", "s"], ["us"]]
SENT_F = -7.25e88
SENT_F32 = -7.25e30
SENT_I = -7777777


def sentinel(dtype):
    dtype = np.dtype(dtype)
    if dtype.kind == "f":
        return SENT_F if dtype.itemsize == 8 else SENT_F32
    return SENT_I


# ---------------------------------------------------------------------------
# digests and snapshots
# ---------------------------------------------------------------------------
def _arr_bytes(a):
    a = np.asarray(a)
    if a.dtype.kind == "f":
        c = np.array(a, copy=True)
        c[np.isnan(c)] = np.nan
        return c.tobytes()
    if a.dtype.kind == "O":
        return repr(a.tolist()).encode("utf-8", "backslashreplace")
    if a.dtype.kind in "US":
        return repr(a.tolist()).encode("utf-8", "backslashreplace")
    return np.ascontiguousarray(a).tobytes()


def rdigest(x, depth=0):
    """Bitwise digest of a result (recursively)."""
    import pandas as pd
    h = hashlib.sha256()

    def add(v, d):
        if d > 6:
            h.update(b"<deep>")
            return
        if v is None:
            h.update(b"None")
        elif isinstance(v, (bool, np.bool_)):
            h.update(b"b" + bytes([int(v)]))
        elif isinstance(v, (int, np.integer)):
            h.update(b"i" + str(int(v)).encode())
        elif isinstance(v, (float, np.floating)):
            f = float(v)
            h.update(b"f" + (b"nan" if f != f else np.float64(f).tobytes()))
        elif isinstance(v, str):
            h.update(b"s" + v.encode("utf-8", "backslashreplace"))
        elif isinstance(v, np.ndarray):
            h.update(b"a" + v.dtype.str.encode() + repr(v.shape).encode())
            h.update(_arr_bytes(v))
        elif isinstance(v, pd.Series):
            h.update(b"S")
            add(v.values, d + 1)
            add(np.asarray(v.index), d + 1)
            add(str(v.name), d + 1)
        elif isinstance(v, pd.DataFrame):
            h.update(b"D")
            add([str(c) for c in v.columns], d + 1)
            add(np.asarray(v.index), d + 1)
            for c in v.columns:
                add(np.asarray(v[c]), d + 1)
        elif isinstance(v, pd.Index):
            add(np.asarray(v), d + 1)
        elif isinstance(v, (list, tuple)):
            h.update(b"l%d" % len(v))
            for e in v:
                add(e, d + 1)
        elif isinstance(v, dict):
            h.update(b"d%d" % len(v))
            for k in v:
                add(str(k), d + 1)
                add(v[k], d + 1)
        elif hasattr(v, "_getsize") and hasattr(v, "data"):     # Grid
            h.update(b"G")
            add([int(v.nrows), int(v.ncols), float(v.cellsize),
                 float(v.xllcorner), float(v.yllcorner)], d + 1)
            add(np.asarray(v.data), d + 1)
        else:
            h.update(b"o" + type(v).__name__.encode())
    add(x, depth)
    return h.hexdigest()[:20]


def rvector(x, out=None, depth=0):
    """Flat list of up to 300 floats summarising a result (for the tolerant
    cross-interpreter comparison)."""
    import pandas as pd
    if out is None:
        out = []
    if len(out) >= 300 or depth > 6:
        return out
    if isinstance(x, (bool, int, float, np.bool_, np.integer, np.floating)):
        out.append(float(x))
    elif isinstance(x, np.ma.MaskedArray) and x.dtype.kind in "fiub":
        rvector(np.ma.filled(x.astype(np.float64), np.nan), out, depth + 1)
    elif isinstance(x, np.ndarray) and x.dtype.kind in "fiub":
        out.extend(float(v) for v in x.reshape(-1)[:300 - len(out)])
    elif isinstance(x, (pd.Series, pd.Index)):
        rvector(np.asarray(x), out, depth + 1)
    elif isinstance(x, pd.DataFrame):
        for c in x.columns:
            rvector(np.asarray(x[c]), out, depth + 1)
    elif isinstance(x, (list, tuple)):
        for e in x:
            rvector(e, out, depth + 1)
    elif isinstance(x, dict):
        for k in x:
            rvector(x[k], out, depth + 1)
    elif hasattr(x, "_getsize") and hasattr(x, "data"):
        rvector(np.asarray(x.data), out, depth + 1)
    return out


_IDX_CACHE = {}


def _index_fp(idx):
    """Fingerprint of a pandas Index (immutable object: cached by identity,
    the cache entry keeps the object alive so ids are not reused)."""
    key = id(idx)
    hit = _IDX_CACHE.get(key)
    if hit is not None and hit[0] is idx:
        return hit[1]
    a = np.asarray(idx)
    if a.dtype.kind in "OUS":
        fp = hashlib.sha256("\x1f".join(map(str, a.tolist())).encode(
            "utf-8", "backslashreplace")).hexdigest()[:16]
    else:
        fp = hashlib.sha256(a.tobytes()).hexdigest()[:16]
    fp = (str(idx.dtype), len(idx), fp)
    if len(_IDX_CACHE) > 2000:
        _IDX_CACHE.clear()
    _IDX_CACHE[key] = (idx, fp)
    return fp


def _raw(a):
    if a.dtype.kind == "O":
        return repr(a.tolist()).encode("utf-8", "backslashreplace")
    return a.tobytes()


def snap(o):
    """Snapshot of an argument object (bit level: raw bytes, dtype, shape,
    strides, flags; pandas: values, index, names, dtypes)."""
    import pandas as pd
    import array as _array
    if isinstance(o, np.ma.MaskedArray):
        d = np.asarray(o.data)
        return ("ma", d.dtype.str, d.shape, d.strides, _raw(d),
                np.ma.getmaskarray(o).tobytes(), repr(o.fill_value))
    if isinstance(o, np.ndarray):
        return ("a", o.dtype.str, o.shape, o.strides,
                o.flags.c_contiguous, o.flags.writeable, _raw(o))
    if isinstance(o, _array.array):
        return ("arr", o.typecode, len(o), o.tobytes())
    if isinstance(o, memoryview):
        return ("mv", o.format, o.shape, o.readonly, o.tobytes())
    if isinstance(o, tuple):
        return ("t", repr(o))
    if isinstance(o, pd.Series):
        v = o.values
        return ("S", str(o.dtype), o.shape, str(o.name),
                _raw(v) if isinstance(v, np.ndarray) else repr(list(v)),
                _index_fp(o.index))
    if isinstance(o, pd.DataFrame):
        v = o.values
        return ("D", tuple(map(str, o.columns)), v.dtype.str, o.shape,
                len(o._mgr.blocks), _raw(v), _index_fp(o.index))
    if isinstance(o, pd.Index):
        # an index handed over as data: read afresh every time (the cached
        # fingerprint is for indexes of series / frames only)
        a = np.asarray(o)
        return ("I", str(o.dtype), len(o),
                _raw(a) if a.dtype.kind not in "US" else repr(a.tolist()))
    if isinstance(o, list):
        return ("l", repr(o))
    if hasattr(o, "_getsize") and hasattr(o, "data"):          # Grid
        d = np.asarray(o.data)
        with np.errstate(all="ignore"):
            v = d.astype(np.float64)
        return ("G", int(o.nrows), int(o.ncols), float(o.cellsize),
                float(o.xllcorner), float(o.yllcorner), v.tobytes())
    if hasattr(o, "flowdir") and hasattr(o, "delineate_area"):  # Catchment
        d = np.asarray(o.flowdir.data).astype(np.float64)
        return ("C", d.tobytes())
    if hasattr(o, "params") and hasattr(o, "constants"):        # Transform
        return ("T", type(o).__name__)
    return ("o", type(o).__name__)


def snap_str(s):
    return short(tuple(hashlib.sha256(x).hexdigest()[:12]
                       if isinstance(x, (bytes, bytearray)) else x
                       for x in s), 200)


# ---------------------------------------------------------------------------
# pool
# ---------------------------------------------------------------------------
class Obj:
    __slots__ = ("id", "kind", "obj", "guards", "desc", "tags")

    def __init__(self, oid, kind, obj, guards=None, desc="", tags=()):
        self.id = oid
        self.kind = kind
        self.obj = obj
        self.guards = guards or []      # [(array view that must stay sentinel)]
        self.desc = desc
        self.tags = set(tags)


class Pool:
    def __init__(self, cs, ctx):
        self.cs = cs
        self.ctx = ctx
        self.objs = []
        self.by_kind = {}
        self.parents = []

    def add(self, kind, obj, guards=None, desc="", tags=()):
        o = Obj(len(self.objs), kind, obj, guards, desc, tags)
        self.objs.append(o)
        self.by_kind.setdefault(kind, []).append(o)
        return o

    def carve(self, values, layout, lab):
        """Place `values` (1-D or 2-D float64/int64 content) into a parent
        block between canary regions, with the requested memory layout.
        Returns (view, guards)."""
        v = np.asarray(values)
        sent = sentinel(v.dtype)
        g = 8
        if v.ndim == 1:
            n = v.shape[0]
            if layout == "strided":
                par = np.full(2 * n + 2 * g, sent, dtype=v.dtype)
                view = par[g:g + 2 * n:2]
                view[...] = v
                guards = [par[:g], par[g + 2 * n:], par[g + 1:g + 2 * n:2]]
            elif layout == "reversed":
                par = np.full(n + 2 * g, sent, dtype=v.dtype)
                par[g:g + n] = v[::-1]
                view = par[g:g + n][::-1]
                guards = [par[:g], par[g + n:]]
            else:
                par = np.full(n + 2 * g, sent, dtype=v.dtype)
                view = par[g:g + n]
                view[...] = v
                guards = [par[:g], par[g + n:]]
        else:
            r, c = v.shape
            if layout in ("contig_exact", "fortran_exact"):
                # truly contiguous 2-D block (guards before and after it in a
                # flat parent): code that skips a copy "because the array is
                # already contiguous" only shows on such arrays
                par = np.full(r * c + 2 * g, sent, dtype=v.dtype)
                mid = par[g:g + r * c]
                view = mid.reshape(r, c) if layout == "contig_exact" \
                    else mid.reshape(c, r).T
                view[...] = v
                guards = [par[:g], par[g + r * c:]]
                self.parents.append(par)
                return view, guards
            if layout == "fortran":
                par = np.full((c + 2, r + 2), sent, dtype=v.dtype)
                view = par[1:c + 1, 1:r + 1].T
                view[...] = v
                guards = [par[0, :], par[-1, :], par[:, 0], par[:, -1]]
            elif layout == "strided":
                par = np.full((r + 2, 2 * c + 2), sent, dtype=v.dtype)
                view = par[1:r + 1, 1:2 * c + 1:2]
                view[...] = v
                guards = [par[0, :], par[-1, :], par[:, 0], par[:, -1],
                          par[1:r + 1, 2:2 * c + 1:2]]
            else:
                par = np.full((r + 2, c + 2), sent, dtype=v.dtype)
                view = par[1:r + 1, 1:c + 1]
                view[...] = v
                guards = [par[0, :], par[-1, :], par[:, 0], par[:, -1]]
        self.parents.append(par)
        return view, guards

    def guards_ok(self):
        for o in self.objs:
            for gview in o.guards:
                if gview.dtype.kind == "f":
                    sent = SENT_F if gview.dtype.itemsize == 8 else SENT_F32
                else:
                    sent = SENT_I
                if not np.all(gview == gview.dtype.type(sent)):
                    return o
        return None


def build_pool(cs, ctx):
    """Everything here is drawn inside the 'pool' span; content depends only
    on the stream, so a second session rebuilds the identical pool."""
    import pandas as pd
    from hydrodiy.gis.grid import Grid, Catchment
    from hydrodiy.stat import transform
    from .c13_gridstore import acyclic_flowdir
    pool = Pool(cs, ctx)
    N = cs.weighted("N", [(24, 3), (60, 3), (7, 1), (120, 2), (365, 1)])
    M = cs.weighted("M", [(5, 3), (1, 1), (20, 2), (50, 1)])
    pool.N, pool.M = N, M
    rng_state = [cs.draw("content_seed", 1 << 30)]
    rs = np.random.RandomState(rng_state[0])
    LAYOUTS1 = ["contig", "strided", "reversed", "contig"]

    def series_values(kind):
        if kind == "flow":
            x = np.exp(rs.normal(0, 1.2, N))
            x[rs.uniform(size=N) < 0.1] = 0.0
        elif kind == "normal":
            x = rs.normal(0, 1, N)
        elif kind == "unif":
            x = np.clip(rs.uniform(0, 1, N), 1e-6, 1 - 1e-6)
        elif kind == "ties":
            x = np.round(rs.uniform(0, 5, N))
        else:
            x = rs.uniform(-10, 10, N)
        return x

    # ---- 1-D numeric arrays of length N in several layouts / dtypes
    nvec = cs.between("nvec", 6, 12)
    for j in range(nvec):
        kind = cs.choice(f"v{j}.kind", ["flow", "flow", "normal", "unif",
                                        "ties", "other"])
        lay = cs.choice(f"v{j}.lay", LAYOUTS1)
        dt = cs.weighted(f"v{j}.dt", [("f8", 8), ("f4", 2), ("i8", 2),
                                      ("i4", 1)])
        x = series_values(kind)
        if cs.flip(f"v{j}.nan", 20) and dt.startswith("f"):
            x[rs.randint(0, N, size=max(1, N // 15))] = np.nan
        if cs.flip(f"v{j}.inf", 15) and dt.startswith("f"):
            x[rs.randint(0, N, size=2)] = np.inf
            x[rs.randint(0, N)] = -np.inf
        if dt == "f4":
            x = x.astype(np.float32)
        elif dt == "i8":
            x = np.round(np.nan_to_num(x) * 3).astype(np.int64)
        elif dt == "i4":
            x = np.round(np.nan_to_num(x) * 3).astype(np.int32)
        view, guards = pool.carve(x, lay, f"v{j}")
        tags = {"vecN", kind, dt, lay}
        if dt == "f8":
            tags.add("f8vec")
        pool.add("vec", view, guards, f"vec[{kind},{dt},{lay}]", tags)
        if cs.flip(f"v{j}.column", 15):
            # the same memory seen as one column [N,1] (an accepted layout of
            # the metrics functions), as a further pool object
            pool.add("vec", view[:, None], guards,
                     f"vec[{kind},{dt},{lay},column]",
                     {"vecN", kind, dt, lay, "column"})
    # zero-dimensional arrays (what numpy reductions and x[i, ...] return)
    for j, z in enumerate((np.array(16), np.array(2.5), np.array(0.25))):
        pool.add("vec", z, None, f"vec[0-d {z.dtype}]", {"zero_d"})
    x = series_values("unif")
    view, guards = pool.carve(x, "contig", "vunif")
    pool.add("vec", view, guards, "vec[unif,f8,contig]",
             {"vecN", "unif", "f8", "f8vec", "contig"})
    # overlapping views of one parent (aliasing pressure)
    base = np.full(N + 20, SENT_F)
    base[4:N + 12] = np.exp(rs.normal(0, 1, N + 8))
    pool.parents.append(base)
    pool.add("vec", base[4:4 + N], [base[:4], base[N + 12:]],
             "vec[overlapA]", {"vecN", "flow", "f8", "f8vec", "overlap"})
    pool.add("vec", base[8:8 + N], [base[:4], base[N + 12:]],
             "vec[overlapB]", {"vecN", "flow", "f8", "f8vec", "overlap"})

    # ---- the same kind of data in the other containers a caller may hold
    # (array-like: index, masked array, buffer objects, plain sequences)
    import array as _array
    for j, kind in enumerate(("unif", "flow", "normal")):
        x = series_values(kind)
        form = cs.choice(f"al{j}.form", ["index", "masked", "array.array",
                                         "memoryview", "list", "tuple",
                                         "index", "masked"])
        if form == "index":
            obj = pd.Index(x.copy(), dtype="float64")
        elif form == "masked":
            msk = rs.uniform(size=N) < 0.1 if cs.flip(f"al{j}.m", 50) \
                else np.zeros(N, dtype=bool)
            obj = np.ma.MaskedArray(x.copy(), mask=msk)
        elif form == "array.array":
            obj = _array.array("d", x.tolist())
        elif form == "memoryview":
            backing = x.copy()
            pool.parents.append(backing)
            obj = memoryview(backing)
        elif form == "list":
            obj = x.tolist()
        else:
            obj = tuple(x.tolist())
        pool.add("alike", obj, None, f"alike[{kind},{form}]", {kind, form})
    # ---- selection masks the caller keeps (bool and int), for idx= arguments
    mk = rs.uniform(size=N) < 0.7
    pool.add("mask", mk, None, "mask[bool]")
    view, guards = pool.carve(mk.astype(np.int64), "contig", "mask")
    pool.add("mask", view, guards, "mask[int64]")
    # ---- ensembles (N, M)
    for j in range(cs.between("nens", 2, 4)):
        lay = cs.choice(f"e{j}.lay", ["contig_exact", "fortran", "strided",
                                      "contig", "fortran_exact"])
        e = np.exp(rs.normal(0, 1, (N, M)))
        if cs.flip(f"e{j}.ties", 40):
            e = np.round(e * 2) / 2
        if cs.flip(f"e{j}.f4", 15):
            e = e.astype(np.float32)
        view, guards = pool.carve(e, lay, f"e{j}")
        pool.add("ens", view, guards, f"ens[{lay},{e.dtype}]", {lay})
    edf = pd.DataFrame(np.exp(rs.normal(0, 1, (N, M))),
                       columns=[f"m{i}" for i in range(M)])
    pool.add("ensdf", edf, None, f"ensemble DataFrame[{N}x{M}]")
    # ---- small vectors (AR params, acf, percentiles)
    for j in range(3):
        k = cs.between(f"s{j}.k", 1, 6)
        x = rs.uniform(-0.45, 0.45, k)
        view, guards = pool.carve(x, cs.choice(f"s{j}.lay", LAYOUTS1), "s")
        pool.add("small", view, guards, f"small[{k}]")
    # ---- 2-D data (pareto, lstsq, kde, bivar)
    for j in range(cs.between("nmat", 2, 3)):
        k = cs.between(f"m{j}.k", 2, 4)
        x = rs.normal(0, 1, (N, k))
        lay = cs.choice(f"m{j}.lay", ["contig_exact", "fortran", "strided",
                                      "fortran_exact", "contig"])
        view, guards = pool.carve(x, lay, "m")
        pool.add("mat", view, guards, f"mat[{N}x{k},{lay}]", {lay, f"k{k}"})
    xy = rs.normal(0, 1, (N, 2))
    xylay = cs.choice("xy.lay", ["contig_exact", "fortran_exact", "contig",
                                 "fortran"])
    view, guards = pool.carve(xy, xylay, "xy")
    pool.add("xy", view, guards, f"xy[N,2,{xylay}]", {"xyN2"})
    xyt = rs.normal(0, 1, (2, N))
    view, guards = pool.carve(xyt, "contig_exact", "xyt")
    pool.add("xy", view.T, guards, "xy[transposed view of a 2xN block]",
             {"xyN2"})
    pool.add("xy", view, guards, "xy[2xN block]")

    # category bounds that lie inside the range of most pool series, so that
    # a function "widening" them would have to write
    for j, cuts in enumerate(([0.5, 1.0, 2.0, 3.0], [-0.5, 0.0, 0.5, 1.0, 4.0])):
        view, guards = pool.carve(np.array(cuts, dtype=np.float64), "contig",
                                  f"cuts{j}")
        pool.add("cuts", view, guards, f"cuts[{len(cuts)} bounds]")

    # ---- pandas
    idx_daily = pd.date_range("2001-01-01", periods=N, freq="D")
    for j in range(cs.between("nser", 2, 4)):
        full = [o for o in pool.by_kind["vec"] if "vecN" in o.tags]
        src = full[cs.draw(f"ser{j}.src", len(full))]
        ik = cs.choice(f"ser{j}.idx", ["range", "daily", "daily_tz", "str"])
        if ik == "range":
            index = None
        elif ik == "daily":
            index = idx_daily
        elif ik == "daily_tz":
            index = idx_daily.tz_localize("UTC")
        else:
            index = [f"r{i}" for i in range(N)]
        se = pd.Series(np.array(src.obj, copy=True).reshape(-1), index=index,
                       name=f"ser{j}")
        pool.add("series", se, None, f"series[{ik},{se.dtype}]",
                 {ik} | ({"f8ser"} if se.dtype == np.float64 else set()))
    nmth = max(3, N // 8)
    se_m = pd.Series(np.abs(rs.normal(50, 20, nmth)),
                     index=pd.date_range("2001-01-01", periods=nmth,
                                         freq="MS"), name="monthly")
    pool.add("monthly", se_m, None, "monthly series")
    # irregular sub-daily series for var2h
    secs = np.cumsum(rs.choice([300, 600, 1800, 3600, 7200], size=N))
    t_irr = pd.to_datetime("2001-03-01") + pd.to_timedelta(secs, unit="s")
    for unit in cs.choice("var2h.units", VAR2H_UNITS):
        try:
            ti = t_irr.as_unit(unit)
        except Exception:
            ti = t_irr
        pool.add("irregular", pd.Series(np.abs(rs.normal(3, 1, N)), index=ti,
                                        name="irr"), None,
                 f"irregular series[{unit}]")
    cols = ["a", "b", "c", "d"][:cs.between("df.k", 2, 4)]
    df = pd.DataFrame(rs.normal(0, 1, (N, len(cols))), columns=cols)
    if cs.flip("df.nan", 40):
        df.iloc[rs.randint(0, N, 3), 0] = np.nan
    pool.add("df", df, None, f"df[{N}x{len(cols)}]")
    dfi = pd.DataFrame(rs.normal(0, 1, (N, 2)), columns=["x1", "x2"],
                       index=idx_daily)
    pool.add("df", dfi, None, "df[daily index]")
    cat = pd.Series(rs.randint(0, 3, N), name="cat")
    pool.add("by", cat, None, "categories")
    pool.add("dtindex", idx_daily, None, "DatetimeIndex daily")
    # aggregation index (monotone)
    agg = (200101 + np.cumsum(rs.uniform(size=N) < 0.2)).astype(np.int32)
    view, guards = pool.carve(agg.astype(np.int64), "contig", "agg")
    pool.add("aggindex", view, guards, "aggindex[int64]")
    pool.add("aggindex", agg, None, "aggindex[int32]")

    # ---- grids / catchments
    nr = cs.between("g.nr", 3, 9)
    nc = cs.between("g.nc", 3, 9)
    fd = acyclic_flowdir(cs, nr, nc, "fd")
    gflow = Grid("flowdir", nc, nr, cellsize=0.5, xllcorner=10.0,
                 yllcorner=-5.0, dtype=np.int64, nodata=0)
    gflow.data[...] = fd
    pool.add("flowdir", gflow, None, f"flowdir[{nr}x{nc}]")
    gflow32 = Grid("flowdir32", nc, nr, cellsize=0.5, xllcorner=10.0,
                   yllcorner=-5.0, dtype=np.int32, nodata=0)
    gflow32.data[...] = fd
    pool.add("flowdir", gflow32, None, f"flowdir[int32 {nr}x{nc}]")
    galt = Grid("alt", nc, nr, cellsize=0.5, xllcorner=10.0, yllcorner=-5.0,
                dtype=np.float64, nodata=-9999.0)
    galt.data[...] = rs.uniform(0, 500, (nr, nc))
    pool.add("field", galt, None, "altitude[f8]")
    gf32 = Grid("rain", nc, nr, cellsize=0.5, xllcorner=10.0, yllcorner=-5.0,
                dtype=np.float32, nodata=-1.0)
    gf32.data[...] = rs.uniform(0, 50, (nr, nc)).astype(np.float32)
    pool.add("field", gf32, None, "field[f4]")
    gint = Grid("count", nc, nr, cellsize=0.5, xllcorner=10.0, yllcorner=-5.0,
                dtype=np.int32, nodata=-1)
    gint.data[...] = rs.randint(0, 9, (nr, nc))
    pool.add("field", gint, None, "field[i4]", {"int"})
    gnan = Grid("gaps", nc, nr, cellsize=0.5, xllcorner=10.0, yllcorner=-5.0,
                dtype=np.float64, nodata=-9999.0)
    gnan.data[...] = rs.uniform(0, 30, (nr, nc))
    gnan.data[rs.uniform(size=(nr, nc)) < 0.25] = np.nan
    pool.add("field", gnan, None, "field[f8 with NaN gaps]")
    # grids with data bounds whose cells were afterwards written in place
    # (setitem / fill do not clip): e.g. a no-data flag below mindata
    gb = Grid("bounded", nc, nr, cellsize=0.5, xllcorner=10.0, yllcorner=-5.0,
              dtype=np.float64, nodata=-1.0)
    gb.data[...] = rs.uniform(0, 100, (nr, nc))
    gb.mindata = 0.0
    gb.maxdata = 100.0
    gb[[0, nr * nc - 1]] = -1.0
    gb[1] = 250.0
    pool.add("field", gb, None, "field[f8 with data bounds, flags outside]")
    gbi = Grid("boundedint", nc, nr, cellsize=0.5, xllcorner=10.0,
               yllcorner=-5.0, dtype=np.int32, nodata=-9)
    gbi.data[...] = rs.randint(0, 50, (nr, nc))
    gbi.mindata = 0
    gbi[[0, 2]] = -9
    pool.add("field", gbi, None, "field[i4 with mindata, flags outside]",
             {"int"})
    # unsorted int64 cell numbers (as coord2cell returns them for points in
    # arbitrary order)
    cells = rs.permutation(nr * nc)[:max(2, (nr * nc) // 2)].astype(np.int64)
    view, guards = pool.carve(cells, "contig", "cells")
    pool.add("cells", view, guards, f"unsorted cell numbers[{len(cells)}]")
    gcoarse = Grid("coarse", max(2, nc // 2 + 1), max(2, nr // 2 + 1),
                   cellsize=1.5, xllcorner=9.5, yllcorner=-5.5,
                   dtype=np.float64, nodata=0)
    gcoarse.data[...] = rs.uniform(0, 1, gcoarse.data.shape)
    pool.add("coarse", gcoarse, None, "coarse grid")
    # ... and a coarse grid of integer classes (a narrower type than the
    # fields it is combined with)
    gclass = Grid("classes", max(2, nc // 2 + 1), max(2, nr // 2 + 1),
                  cellsize=1.5, xllcorner=9.5, yllcorner=-5.5,
                  dtype=np.int32, nodata=-1)
    gclass.data[...] = rs.randint(0, 6, gclass.data.shape)
    pool.add("coarse", gclass, None, "coarse grid of classes[i4]")
    # catchments delineated once at pool creation, never re-delineated
    sinks = [int(i) for i in np.where(fd.reshape(-1) == 0)[0]]
    for j in range(2):
        cat = Catchment(f"cat{j}", gflow)
        outlet = sinks[cs.draw(f"cat{j}.outlet", len(sinks))]
        cat.delineate_area(outlet, nval=nr * nc + 5)
        pool.add("catch", cat, None, f"catchment[outlet {outlet}, "
                 f"{len(cat.idxcells_area)} cells]")
    # ... and small ones (a few cells, in the order the delineation found them)
    for j in range(2, 5):
        cat = Catchment(f"cat{j}", gflow)
        outlet = cs.draw(f"cat{j}.cell", nr * nc)
        try:
            cat.delineate_area(outlet, nval=nr * nc + 5)
        except Exception:
            continue
        if len(cat.idxcells_area) == 0:
            continue
        pool.add("catch", cat, None, f"catchment[outlet {outlet}, "
                 f"{len(cat.idxcells_area)} cells]")
    pool.ncells = nr * nc
    # polygons, points, answer buffers
    P = cs.between("P", 3, 40)
    pts = rs.uniform(-2, 2, (P, 2))
    view, guards = pool.carve(pts, cs.choice("pts.lay", ["contig", "fortran",
                                                          "strided"]), "pts")
    pool.add("points", view, guards, f"points[{P}]")
    ang = np.sort(rs.uniform(0, 2 * np.pi, cs.between("poly.k", 3, 8)))
    poly = np.column_stack([1.5 * np.cos(ang), 1.5 * np.sin(ang)])
    view, guards = pool.carve(poly, cs.choice("poly.lay", ["contig",
                                                            "fortran"]), "poly")
    pool.add("polygon", view, guards, f"polygon[{len(ang)}]")
    box = np.array([[-0.4, -0.4], [0.5, -0.4], [0.5, 0.6], [-0.4, 0.6]])
    view, guards = pool.carve(box, "contig_exact", "poly2")
    pool.add("polygon", view, guards, "polygon[small box]")
    inside_par = np.full(P + 16, SENT_I, dtype=np.int32)
    pool.parents.append(inside_par)
    pool.add("inside", inside_par[8:8 + P], [inside_par[:8],
                                             inside_par[8 + P:]],
             "reusable inside buffer")
    gxy = np.column_stack([10.0 + rs.uniform(0, nc * 0.5, 6),
                           -5.0 + rs.uniform(0, nr * 0.5, 6)])
    view, guards = pool.carve(gxy, "contig", "gxy")
    pool.add("gridxy", view, guards, "points inside grid extent")
    # points exactly on the edges and corners of the grid extent
    xs = [10.0, 10.0 + 0.5 * nc, 10.0 + 0.5 * (nc - 1)]
    ys = [-5.0, -5.0 + 0.5 * nr, -5.0 + 0.125]
    edge = np.array([[x, y] for x in xs for y in ys], dtype=np.float64)
    view, guards = pool.carve(edge, "contig_exact", "gxyedge")
    pool.add("gridxy", view, guards, "points on the edges of the grid extent")
    # transforms
    for j in range(cs.between("ntr", 3, 5)):
        cls = cs.choice(f"tr{j}.cls", ["BoxCox2", "BoxCox1lam", "BoxCox1nu",
                                       "BoxCox2sym", "Log", "YeoJohnson",
                                       "Sinh", "LogSinh", "Reciprocal",
                                       "Identity", "Logit", "Manly"])
        pool.add("transform", getattr(transform, cls)(), None, f"tr[{cls}]",
                 {cls})
    pool.P = P
    return pool


# ---------------------------------------------------------------------------
# catalogue
# ---------------------------------------------------------------------------
class Entry:
    def __init__(self, name, needs, fn, opts=None, outs=(), plot=False,
                 weight=3, owned=True):
        self.name = name
        self.needs = needs      # [(param, kind, required tags or None)]
        self.fn = fn
        self.opts = opts
        self.outs = set(outs)
        self.plot = plot
        self.weight = weight
        self.owned = owned      # the caller owns the returned arrays


TR_PARAMS = {
    "BoxCox2": lambda u: {"nu": 0.01 + u[0], "lam": 0.05 + 0.9 * u[1]},
    "BoxCox1lam": lambda u: {"nu": 0.01 + u[0], "lam": 0.05 + 0.9 * u[1]},
    "BoxCox1nu": lambda u: {"nu": 0.01 + u[0], "lam": 0.05 + 0.9 * u[1]},
    "BoxCox2sym": lambda u: {"nu": 0.01 + u[0], "lam": 0.05 + 0.9 * u[1]},
    "Log": lambda u: {"nu": 0.01 + u[0]},
    "YeoJohnson": lambda u: {"nu": u[0] - 0.5, "scale": 0.5 + u[1],
                             "lam": 2 * u[0]},
    "Sinh": lambda u: {"nu": u[0] - 0.5, "scale": 0.5 + u[1]},
    "LogSinh": lambda u: {"loga": -2 * u[0], "logb": u[1] - 0.5,
                          "xmax": 5.0 + 10 * u[0]},
    "Reciprocal": lambda u: {"nu": 0.01 + u[0]},
    "Identity": lambda u: {},
    "Logit": lambda u: {"lower": -60.0 - u[0], "logdelta": 5.0},
    "Manly": lambda u: {"lam": u[0] - 0.5, "xmax": 5.0 + 10 * u[1]},
}


def set_tr(tr, u):
    for k, v in TR_PARAMS[type(tr).__name__](u).items():
        tr[k] = v
    return tr


def catalogue():
    from hydrodiy.stat import metrics, sutils, armodels
    from hydrodiy.data import dutils, qualitycontrol, signatures
    from hydrodiy.gis import grid as hgrid, gutils
    from hydrodiy.plot import boxplot, violinplot, putils
    import matplotlib
    matplotlib.use("Agg")
    import matplotlib.pyplot as plt

    E = []

    def add(name, needs, fn, opts=None, **kw):
        E.append(Entry(name, needs, fn, opts, **kw))

    V = ("x", "vec", None)
    OBS = ("obs", "vec", None)
    SIM = ("sim", "vec", None)
    ENS = ("ens", "ens", None)
    TR = ("tr", "transform", None)

    def uu(cs, lab):
        return (cs.unit(lab + ".u0"), cs.unit(lab + ".u1"))

    # ---- process-wide settings no computation may depend on
    def printopts(a, o):
        import pandas as pd
        if o["how"] == "narrow":
            np.set_printoptions(precision=2, threshold=4, linewidth=30,
                                suppress=True)
            pd.set_option("display.precision", 2)
            pd.set_option("display.max_rows", 4)
        else:
            np.set_printoptions(precision=8, threshold=1000, linewidth=75,
                                suppress=False)
            pd.reset_option("display.precision")
            pd.reset_option("display.max_rows")
        return None
    add("env.print options", [], printopts,
        lambda cs: {"how": cs.choice("how", ["narrow", "default"])}, weight=2)
    # ---- metrics
    add("metrics.crps", [OBS, ENS], lambda a, o: metrics.crps(a.obs, a.ens))
    add("metrics.pit", [OBS, ENS],
        lambda a, o: metrics.pit(a.obs, a.ens, random=o["random"],
                                 censor=o["censor"]),
        lambda cs: {"random": cs.flip("random", 40),
                    "censor": cs.choice("censor", [0.0, 0.5])})
    add("metrics.alpha", [OBS, ENS],
        lambda a, o: metrics.alpha(a.obs, a.ens, type=o["type"]),
        lambda cs: {"type": cs.choice("type", ["CV", "KS", "AD"])})
    add("metrics.iqr", [ENS, ("ref", "ens", None)],
        lambda a, o: metrics.iqr(a.ens, a.ref, coverage=o["cov"]),
        lambda cs: {"cov": cs.choice("cov", [50.0, 80.0])})
    for nm in ("bias", "nse", "kge"):
        f = getattr(metrics, nm)
        add("metrics." + nm, [OBS, SIM, TR],
            (lambda f: lambda a, o: f(a.obs, a.sim, trans=set_tr(a.tr, o["u"]),
                                      excludenull=o["ex"]))(f),
            lambda cs: {"u": uu(cs, "tr"), "ex": cs.flip("ex", 50)})
        add("metrics." + nm + "(default trans)", [OBS, SIM],
            (lambda f: lambda a, o: f(a.obs, a.sim, excludenull=o["ex"]))(f),
            lambda cs: {"ex": cs.flip("ex", 60)}, weight=2)
    add("metrics.corr", [OBS, ENS, TR],
        lambda a, o: metrics.corr(a.obs, a.ens, trans=set_tr(a.tr, o["u"]),
                                  type=o["type"], stat=o["stat"]),
        lambda cs: {"u": uu(cs, "tr"),
                    "type": cs.choice("type", ["Pearson", "Spearman",
                                               "censored"]),
                    "stat": cs.choice("stat", ["median", "mean"])})
    add("metrics.dscore(ens)", [OBS, ENS],
        lambda a, o: metrics.dscore(a.obs, a.ens))
    add("metrics.anderson_darling_test", [("x", "vec", {"unif"})],
        lambda a, o: metrics.anderson_darling_test(a.x))
    add("metrics.anderson_darling_test(any)", [V],
        lambda a, o: metrics.anderson_darling_test(a.x), weight=1)
    AL = ("x", "alike", None)
    add("metrics.anderson_darling_test(array-like)", [AL],
        lambda a, o: metrics.anderson_darling_test(a.x))
    add("metrics.cramer_von_mises_test(array-like)", [AL],
        lambda a, o: metrics.cramer_von_mises_test(a.x), weight=1)
    add("sutils.acf(array-like)", [AL],
        lambda a, o: sutils.acf(a.x, maxlag=2), weight=1)
    add("sutils.standard_normal(array-like)", [AL],
        lambda a, o: sutils.standard_normal(a.x), weight=1)
    add("qualitycontrol.islinear(array-like)", [AL],
        lambda a, o: qualitycontrol.islinear(a.x, npoints=3), weight=1)
    add("qualitycontrol.ismisscens(array-like)", [AL],
        lambda a, o: qualitycontrol.ismisscens(a.x), weight=1)
    add("signatures.eckhardt(array-like)", [AL],
        lambda a, o: signatures.eckhardt(a.x), weight=1)
    add("dutils.lag(array-like)", [AL],
        lambda a, o: dutils.lag(a.x, 1), weight=1)
    add("boxplot.boxplot_stats(array-like)", [AL],
        lambda a, o: boxplot.boxplot_stats(a.x, 50., 90.), weight=1)
    add("metrics.bias/nse(array-like)", [AL, ("sim", "alike", None)],
        lambda a, o: (metrics.bias(a.x, a.sim), metrics.nse(a.x, a.sim)),
        weight=1)
    add("armodels.armodel_sim/residual(array-like)", [AL],
        lambda a, o: (armodels.armodel_sim(0.5, a.x),
                      armodels.armodel_residual(0.5, a.x)), weight=1)
    add("metrics.cramer_von_mises_test", [V],
        lambda a, o: metrics.cramer_von_mises_test(a.x))
    add("metrics.absolute_peak_error", [OBS, SIM],
        lambda a, o: metrics.absolute_peak_error(a.obs, a.sim, winerase=o["w"],
                                                 neventmax=3),
        lambda cs: {"w": cs.choice("w", [3, 10])})
    add("metrics.relative_percentile_error", [OBS, SIM],
        lambda a, o: metrics.relative_percentile_error(
            a.obs, a.sim, o["pr"], modified=o["mod"]),
        lambda cs: {"pr": cs.choice("pr", [[0, 100], [10, 90], [50, 100]]),
                    "mod": cs.flip("mod", 50)})
    add("metrics.confusion_matrix", [OBS, SIM],
        lambda a, o: metrics.confusion_matrix(
            np.clip(np.nan_to_num(np.asarray(a.obs)), 0, 2).astype(int),
            np.clip(np.nan_to_num(np.asarray(a.sim)), 0, 2).astype(int)),
        weight=1)
    add("metrics.confusion_matrix(raw)", [("obs", "vec", {"i8"}),
                                          ("sim", "vec", {"i8"})],
        lambda a, o: metrics.confusion_matrix(a.obs, a.sim), weight=1)
    # ---- sutils
    add("sutils.ppos", [], lambda a, o: sutils.ppos(o["n"], o["cst"]),
        lambda cs: {"n": cs.between("n", 1, 50),
                    "cst": cs.choice("cst", [0.3, 0.0, 0.5])}, weight=1)
    add("sutils.acf", [V], lambda a, o: sutils.acf(a.x, maxlag=o["lag"]),
        lambda cs: {"lag": cs.between("lag", 1, 5)})
    add("sutils.acf(idx)", [V, ("y", "vec", None)],
        lambda a, o: sutils.acf(a.x, maxlag=2,
                                idx=np.asarray(a.y) > np.nanmedian(a.y)))
    add("sutils.acf(idx=mask)", [V, ("mask", "mask", None)],
        lambda a, o: sutils.acf(a.x, maxlag=o["lag"], idx=a.mask),
        lambda cs: {"lag": cs.between("lag", 1, 3)})
    add("sutils.lhs", [("pmin", "small", None)],
        lambda a, o: sutils.lhs(o["n"], a.pmin, np.asarray(a.pmin) + 1.0),
        lambda cs: {"n": cs.between("n", 1, 30)})
    add("sutils.lhs_norm", [("mean", "small", None)],
        lambda a, o: sutils.lhs_norm(o["n"], a.mean,
                                     np.eye(len(a.mean)) * 0.5),
        lambda cs: {"n": cs.between("n", 2, 30)})
    add("sutils.standard_normal", [V],
        lambda a, o: sutils.standard_normal(a.x, cst=o["cst"],
                                            rank_method=o["rm"]),
        lambda cs: {"cst": cs.choice("cst", [0.0, 0.375]),
                    "rm": cs.choice("rm", ["average", "min", "first"])})
    add("sutils.semicorr", [("xy", "xy", None)],
        lambda a, o: sutils.semicorr(a.xy))
    add("sutils.pareto_front", [("m", "mat", None)],
        lambda a, o: sutils.pareto_front(a.m, orientation=o["or"]),
        lambda cs: {"or": cs.choice("or", [1, -1])})
    add("sutils.lstsq", [("m", "mat", None), ("y", "vec", {"f8vec"})],
        lambda a, o: sutils.lstsq(a.m, a.y, add_intercept=o["ic"]),
        lambda cs: {"ic": cs.flip("ic", 50)})
    add("sutils.lstsq(df)", [("df", "df", None), ("y", "vec", {"f8vec"})],
        lambda a, o: sutils.lstsq(a.df, a.y, add_intercept=o["ic"]),
        lambda cs: {"ic": cs.flip("ic", 60)})
    # ---- armodels
    add("armodels.armodel_sim", [("p", "small", None), V],
        lambda a, o: armodels.armodel_sim(a.p, a.x, sim_mean=o["m"],
                                          sim_ini=o["ini"]),
        lambda cs: {"m": cs.choice("m", [0.0, 1.5]),
                    "ini": cs.choice("ini", [None, 0.3])})
    add("armodels.armodel_residual", [("p", "small", None), V],
        lambda a, o: armodels.armodel_residual(a.p, a.x, sim_mean=o["m"],
                                               sim_ini=o["ini"]),
        lambda cs: {"m": cs.choice("m", [None, 0.0]),
                    "ini": cs.choice("ini", [None, 0.3])})
    add("armodels.yule_walker", [("p", "small", None)],
        lambda a, o: armodels.yule_walker(a.p), weight=1)
    # ---- transforms
    for meth in ("forward", "backward", "jacobian", "backward_censored"):
        add("transform." + meth, [TR, V],
            (lambda meth: lambda a, o: getattr(set_tr(a.tr, o["u"]), meth)(
                a.x))(meth),
            lambda cs: {"u": uu(cs, "tr")})
    # ... and on zero-dimensional arrays in particular
    Z = ("x", "vec", {"zero_d"})
    for meth in ("forward", "backward", "jacobian"):
        add("transform." + meth + "(0-d)", [TR, Z],
            (lambda meth: lambda a, o: getattr(set_tr(a.tr, o["u"]), meth)(
                a.x))(meth),
            lambda cs: {"u": uu(cs, "tr")}, weight=1)
    add("dutils.cast(0-d)", [Z, ("y", "vec", None)],
        lambda a, o: dutils.cast(a.x, a.y), weight=1)
    def fresh_twice(a, o):
        # a transform straight after its parameters were set: the first call
        # of a method and the same call again
        tr = set_tr(type(a.tr)(), o["u"])
        r1 = rdigest(getattr(tr, o["m"])(a.x))
        r2 = rdigest(getattr(tr, o["m"])(a.x))
        if r1 != r2:
            raise Violation("consecutive_calls_differ",
                            f"{type(tr).__name__}.{o['m']} right after the "
                            "parameters were set, then again: different "
                            "results", "transform first call twice")
        return r1
    add("transform first call twice", [TR, ("x", "vec", {"vecN"})],
        fresh_twice,
        lambda cs: {"u": uu(cs, "tr"),
                    "m": cs.choice("m", ["backward", "forward", "jacobian"])},
        weight=2)

    def params_from_vector(a, o):
        # parameter values handed over as the caller's own vector, then the
        # usual by-name assignment and reset on the transform
        tr = type(a.tr)()
        n = tr.params.nval
        if n == 0 or len(a.p) < n:
            return None
        tr.params.values = a.p[:n]
        tr[tr.params.names[0]] = o["v"]
        out = [float(x) for x in tr.params.values]
        tr.reset()
        tr[tr.params.names[-1]] = o["v"]
        tr.reset()
        return out + [float(x) for x in tr.params.values]
    add("transform.params.values = <caller's vector>, then by-name / reset",
        [TR, ("p", "small", None)], params_from_vector,
        lambda cs: {"v": cs.choice("v", [0.123, 0.9, 2.0])}, weight=2)
    def around_rejected(a, o):
        """The same call before and after an assignment that the transform
        REJECTS (NaN for a parameter, a value for a name it does not have, a
        vector of the wrong length): nothing was assigned, so the two calls
        have the same arguments and must agree."""
        tr = set_tr(a.tr, o["u"])
        fn = getattr(tr, o["meth"])
        r1 = rdigest(fn(a.x))
        names = list(tr.params.names)
        try:
            if o["what"] == "nan_by_name" and names:
                nm = names[o["i"] % len(names)]
                if o["via"] == 0:
                    setattr(tr, nm, np.nan)
                elif o["via"] == 1:
                    tr[nm] = np.nan
                else:
                    tr.params[nm] = np.nan
            elif o["what"] == "unknown_name":
                tr["no_such_parameter"] = 0.3
            else:
                tr.params.values = np.full(len(names) + 1, 0.3)
        except Exception:
            pass
        else:
            return r1       # accepted: an ordinary assignment, nothing to say
        r2 = rdigest(fn(a.x))
        if r1 != r2:
            raise Violation("consecutive_calls_differ",
                            f"{type(tr).__name__}.{o['meth']} gives another "
                            f"result after a rejected assignment "
                            f"({o['what']})",
                            "transform call around a rejected assignment")
        return r1
    add("transform call around a rejected assignment", [TR, V],
        around_rejected,
        lambda cs: {"u": uu(cs, "tr"),
                    "meth": cs.choice("meth", ["forward", "backward",
                                               "jacobian"]),
                    "what": cs.choice("what", ["nan_by_name", "nan_by_name",
                                               "unknown_name",
                                               "wrong_length"]),
                    "i": cs.draw("i", 3), "via": cs.draw("via", 3)},
        weight=2)
    add("transform.params_sample", [TR],
        lambda a, o: set_tr(a.tr, o["u"]).params_sample(o["n"]),
        lambda cs: {"u": uu(cs, "tr"), "n": cs.between("n", 1, 20)})
    add("transform.params_logprior", [TR],
        lambda a, o: set_tr(a.tr, o["u"]).params_logprior(),
        lambda cs: {"u": uu(cs, "tr")}, weight=1)
    # ---- dutils
    add("dutils.sequence_true", [V],
        lambda a, o: dutils.sequence_true(np.asarray(a.x) > o["t"]),
        lambda cs: {"t": cs.choice("t", [0.0, 0.5, 1.0])}, weight=1)
    add("dutils.sequence_true(raw)", [("x", "vec", {"i8"})],
        lambda a, o: dutils.sequence_true(a.x), weight=1)
    add("dutils.cast", [V, ("y", "vec", None)],
        lambda a, o: dutils.cast(a.x, a.y), weight=1)
    add("dutils.dayofyear", [("t", "dtindex", None)],
        lambda a, o: dutils.dayofyear(a.t), weight=1)
    add("dutils.compute_aggindex", [("t", "dtindex", None)],
        lambda a, o: dutils.compute_aggindex(a.t, o["ts"]),
        lambda cs: {"ts": cs.choice("ts", ["MS", "AS", "D", "AS-JUL"])},
        weight=1)
    add("dutils.aggregate", [("ai", "aggindex", None), V],
        lambda a, o: dutils.aggregate(a.ai, a.x, operator=o["op"],
                                      maxnan=o["mn"]),
        lambda cs: {"op": cs.draw("op", 4), "mn": cs.choice("mn", [0, 1, 5])})
    add("dutils.flathomogen", [("ai", "aggindex", None), V],
        lambda a, o: dutils.flathomogen(a.ai, a.x, maxnan=o["mn"]),
        lambda cs: {"mn": cs.choice("mn", [0, 2])})
    add("dutils.lag", [V], lambda a, o: dutils.lag(a.x, o["lag"]),
        lambda cs: {"lag": cs.choice("lag", [1, -1, 3, 0])})
    add("dutils.lag(2d)", [("m", "mat", None)],
        lambda a, o: dutils.lag(a.m, o["lag"]),
        lambda cs: {"lag": cs.choice("lag", [1, -2])}, weight=1)
    add("dutils.water_year_end", [("s", "monthly", None)],
        lambda a, o: dutils.water_year_end(a.s), weight=1)
    add("dutils.monthly2daily", [("s", "monthly", None)],
        lambda a, o: dutils.monthly2daily(a.s, interpolation=o["i"]),
        lambda cs: {"i": cs.choice("i", ["flat", "cubic"])})
    add("dutils.var2h", [("s", "irregular", None)],
        lambda a, o: dutils.var2h(a.s, nbsec_per_period=o["p"],
                                  rainfall=o["r"]),
        lambda cs: {"p": cs.choice("p", [3600, 1800]),
                    "r": cs.flip("r", 30)})
    # ---- qualitycontrol / signatures
    add("qualitycontrol.ismisscens", [V],
        lambda a, o: qualitycontrol.ismisscens(a.x, censor=o["c"]),
        lambda cs: {"c": cs.choice("c", [0.0, 0.5])})
    add("qualitycontrol.islinear(f8 contiguous)",
        [("x", "vec", {"f8vec", "contig"})],
        lambda a, o: qualitycontrol.islinear(a.x, npoints=o["np"],
                                             thresh=o["th"]),
        lambda cs: {"np": cs.choice("np", [3, 1, 5]),
                    "th": cs.choice("th", [0.0, 0.1])})
    add("qualitycontrol.islinear", [V],
        lambda a, o: qualitycontrol.islinear(a.x, npoints=o["np"],
                                             thresh=o["th"]),
        lambda cs: {"np": cs.choice("np", [3, 1, 5]),
                    "th": cs.choice("th", [0.0, 0.1])})
    add("signatures.eckhardt", [V],
        lambda a, o: signatures.eckhardt(a.x, thresh=o["th"], tau=o["tau"]),
        lambda cs: {"th": cs.choice("th", [0.95, 0.5]),
                    "tau": cs.choice("tau", [20, 5])})
    add("signatures.fdcslope", [V, TR],
        lambda a, o: signatures.fdcslope(a.x, q1=o["q1"], q2=o["q2"],
                                         trans=set_tr(a.tr, o["u"])),
        lambda cs: {"q1": cs.choice("q1", [90, 10]),
                    "q2": cs.choice("q2", [100, 95]), "u": uu(cs, "tr")})
    add("signatures.goue", [("ai", "aggindex", None), V],
        lambda a, o: signatures.goue(a.ai, a.x))
    # ---- grid methods
    G = ("g", "field", None)
    add("Grid.coord2cell", [G, ("xy", "gridxy", None)],
        lambda a, o: a.g.coord2cell(a.xy))
    add("Grid.cell2coord", [G],
        lambda a, o: a.g.cell2coord(np.arange(o["n"])),
        lambda cs: {"n": cs.between("n", 1, 9)}, weight=1)
    add("Grid.cell2rowcol", [G],
        lambda a, o: a.g.cell2rowcol(np.arange(o["n"])),
        lambda cs: {"n": cs.between("n", 1, 9)}, weight=1)
    add("Grid.neighbours", [G], lambda a, o: a.g.neighbours(o["c"]),
        lambda cs: {"c": cs.draw("c", 9)}, weight=1)
    add("Grid.slice", [G, ("xy", "gridxy", None)],
        lambda a, o: a.g.slice(a.xy))
    add("Grid.clip", [G],
        lambda a, o: a.g.clip(10.3, -4.7, 10.3 + o["w"], -4.7 + o["h"]),
        lambda cs: {"w": 0.5 * cs.between("w", 0, 2),
                    "h": 0.5 * cs.between("h", 0, 2)})
    def data_then_write(a, o):
        m = a.m
        g = hgrid.Grid("tmp", int(m.shape[1]), int(m.shape[0]),
                       dtype=np.float64)
        g.data = m
        if o["how"] == "fill":
            g.fill(o["v"])
        else:
            g[0] = o["v"]
        return np.array(g.data, copy=True)
    add("Grid.data=array then fill/setitem", [("m", "mat", None)],
        data_then_write,
        lambda cs: {"how": cs.choice("how", ["fill", "setitem"]),
                    "v": cs.choice("v", [1.5, -3.0])})

    def clip_then_write(a, o):
        g = a.g
        x0 = float(g.xllcorner) + 0.5 * float(g.cellsize)
        y0 = float(g.yllcorner) + 0.5 * float(g.cellsize)
        x1 = float(g.xllcorner) + (int(g.ncols) - 0.5) * float(g.cellsize)
        y1 = y0 + o["rows"] * float(g.cellsize)
        c = g.clip(x0, y0, x1, y1)
        c.fill(o["v"])
        c[0] = 3
        return c
    add("Grid.clip(full width) then fill", [G], clip_then_write,
        lambda cs: {"rows": cs.between("rows", 0, 2),
                    "v": cs.choice("v", [0, 7])})
    add("Grid.clone", [G], lambda a, o: a.g.clone(o["dt"]),
        lambda cs: {"dt": cs.choice("dt", [None, np.float64, np.int32])})
    def grid_apply(a, o):
        # the function handed to apply may work in place on what it is given
        # (the clean-then-transform idiom): the grid itself is an argument of
        # apply and keeps its cells
        def clean_then_log(x):
            x[x < 2] = 1
            return np.log(x)

        def halve_in_place(x, out_of_place=False):
            if out_of_place:
                return x / 2
            x //= 2
            return x
        f = o["f"]
        if f == "sqrt":
            return a.g.apply(np.sqrt)
        if f == "negative":
            return a.g.apply(np.negative)
        if f == "clean":
            return a.g.apply(clean_then_log)
        if f == "halve":
            return a.g.apply(halve_in_place)
        return a.g.apply(halve_in_place, out_of_place=True)
    add("Grid.apply", [G], grid_apply,
        lambda cs: {"f": cs.choice("f", ["sqrt", "negative", "clean", "halve",
                                         "halve_kw"])}, weight=2)
    add("Grid.interpolate", [G, ("c", "coarse", None)],
        lambda a, o: a.c.interpolate(a.g, method=o["m"]),
        lambda cs: {"m": cs.choice("m", ["linear", "nearest"])}, weight=1)
    add("Grid.cells_inside_polygon", [G, ("p", "gridxy", None)],
        lambda a, o: a.g.cells_inside_polygon(a.p), weight=1)
    add("Grid.xyvalues", [G], lambda a, o: (a.g.xvalues, a.g.yvalues),
        weight=1)
    add("Grid.to_dict", [G], lambda a, o: {k: str(v) for k, v in
                                           a.g.to_dict().items()}, weight=1)
    # ---- catchment methods (pre-delineated catchments, pure reads)
    CA = ("c", "catch", None)
    add("Catchment.upstream", [CA],
        lambda a, o: a.c.upstream(o["cells"]),
        lambda cs: {"cells": [cs.draw("c0", 9), cs.draw("c1", 9)]})
    add("Catchment.downstream", [CA],
        lambda a, o: a.c.downstream(o["cells"]),
        lambda cs: {"cells": [cs.draw("c0", 9), cs.draw("c1", 9)]})
    add("Catchment.extent", [CA], lambda a, o: a.c.extent(), weight=1)
    add("Catchment.isin", [CA], lambda a, o: a.c.isin(o["c"], o["f"]),
        lambda cs: {"c": cs.draw("c", 9), "f": cs.flip("f", 50)}, weight=1)
    add("Catchment.intersect", [CA, ("g", "coarse", None)],
        lambda a, o: a.c.intersect(a.g, filled=o["f"]),
        lambda cs: {"f": cs.flip("f", 50)})
    add("Catchment.delineate_boundary", [CA],
        lambda a, o: (a.c.delineate_boundary(),
                      a.c.idxcells_boundary, a.c.xycells_boundary)[1:],
        owned=False)
    add("Catchment.compute_flowpathlengths", [CA],
        lambda a, o: (a.c.compute_flowpathlengths(), a.c.flowpathlengths)[1],
        owned=False)
    add("Catchment.to_dict", [CA],
        lambda a, o: {k: (v if k != "flowdir" else None)
                      for k, v in a.c.to_dict().items()}, weight=1,
        owned=False)
    def around_boundary(a, o):
        """The same read-only call before and after delineate_boundary (which
        only adds the boundary to the catchment) must agree."""
        def read():
            if o["what"] == "flowpaths":
                a.c.compute_flowpathlengths()
                return rdigest(a.c.flowpathlengths)
            if o["what"] == "intersect":
                return rdigest(a.c.intersect(a.g))
            return rdigest([a.c.idxcells_area, a.c.to_dict()["idxcells_area"]])
        r1 = read()
        try:
            a.c.delineate_boundary()
        except Exception:
            return r1
        r2 = read()
        if r1 != r2:
            raise Violation("consecutive_calls_differ",
                            f"{o['what']} on a catchment of "
                            f"{len(a.c.idxcells_area)} cells gives another "
                            "result after delineate_boundary()",
                            "Catchment read around delineate_boundary")
        return r1
    add("Catchment read around delineate_boundary",
        [CA, ("g", "coarse", None)], around_boundary,
        lambda cs: {"what": cs.choice("what", ["flowpaths", "intersect",
                                               "cells"])},
        owned=False, weight=3)
    # fresh catchment per call: delineation as a pure function of its args
    FD = ("fd", "flowdir", None)

    def fresh_delineate(a, o):
        c = hgrid.Catchment("tmp", a.fd)
        n = int(a.fd.nrows * a.fd.ncols)
        inl = [i % n for i in o["inlets"]] if o["inlets"] else None
        nval = o["nval"] if o["nval"] else n + 5
        c.delineate_area(o["outlet"] % n, inl, nval=nval)
        out = [c.idxcells_area, c.idxcells_area_filled]
        if o["again"]:
            c.delineate_area(o["outlet2"] % n, nval=nval)
            out += [c.idxcells_area, c.idxinlets]
        if o["boundary"]:
            c.delineate_boundary()
            out += [c.idxcells_boundary]
        return out
    def delineate_around_failure(a, o):
        """delineate, then a delineation that fails for lack of buffer space
        (documented ValueError), then the first one again: same arguments,
        same result."""
        n = int(a.fd.nrows * a.fd.ncols)
        nval = o["nval"]
        c = hgrid.Catchment("tmp", a.fd)
        try:
            c.delineate_area(o["outlet"] % n, nval=nval)
        except ValueError:
            return "first call does not fit"
        first = np.array(c.idxcells_area, copy=True)
        failed = False
        for cand in o["others"]:
            c2 = hgrid.Catchment("tmp2", a.fd)
            try:
                c2.delineate_area(cand % n, nval=nval)
            except ValueError:
                failed = True
                break
        # also on the same catchment object: a rejected delineation with
        # inlets (too small a buffer, or an outlet outside the grid) in between
        inlet = int(first[len(first) // 2]) if len(first) else \
            o["others"][-1] % n
        for cand in o["others"][:3]:
            try:
                c.delineate_area(cand % n if o["inside"] else -1,
                                 [inlet], nval=nval)
            except ValueError:
                failed = True
        c.delineate_area(o["outlet"] % n, nval=nval)
        again = np.array(c.idxcells_area, copy=True)
        if not np.array_equal(first, again):
            raise Violation("consecutive_calls_differ",
                            f"delineate_area(outlet={o['outlet'] % n}, nval="
                            f"{nval}) on one catchment gave {first.tolist()} "
                            f"and, after other delineations (some rejected) on "
                            f"the same object, {again.tolist()}",
                            "Catchment.delineate_area")
        c3 = hgrid.Catchment("tmp3", a.fd)
        c3.delineate_area(o["outlet"] % n, nval=nval)
        third = np.array(c3.idxcells_area, copy=True)
        if not np.array_equal(first, third):
            raise Violation("consecutive_calls_differ",
                            f"delineate_area(outlet={o['outlet'] % n}, nval="
                            f"{nval}) gave {first.tolist()} and, after "
                            f"{'a failing' if failed else 'another'} "
                            f"delineation in between, {third.tolist()}",
                            "Catchment.delineate_area")
        return [first, failed]
    add("Catchment.delineate_area around a failing call", [FD],
        delineate_around_failure,
        lambda cs: {"outlet": cs.draw("outlet", 81),
                    "nval": cs.choice("nval", [4, 6, 10, 20]),
                    "others": [cs.draw(f"o{i}", 81) for i in range(6)],
                    "inside": cs.flip("inside", 60)},
        weight=5)
    def from_dict_then_use(a, o):
        """A catchment described by caller-held arrays (cell numbers from
        another tool), rebuilt with from_dict and then used."""
        dic = {"name": "ext", "idxcell_outlet": int(a.cells[0]),
               "idxinlets": None, "idxcells_area": a.cells,
               "idxcells_area_filled": a.cells if o["same"] else
               np.array(a.cells, copy=True),
               "flowdir": a.fd.to_dict()}
        c = hgrid.Catchment.from_dict(dic)
        out = []
        if o["boundary"]:
            c.delineate_boundary()
            out.append(np.array(c.idxcells_boundary, copy=True))
        out.append(c.extent())
        out.append(c.isin(int(a.cells[-1])))
        return out
    add("Catchment.from_dict(arrays) then boundary/extent",
        [FD, ("cells", "cells", None)], from_dict_then_use,
        lambda cs: {"same": cs.flip("same", 60),
                    "boundary": cs.flip("boundary", 80)}, weight=4)
    add("Catchment(new).delineate_area", [FD], fresh_delineate,
        lambda cs: {"outlet": cs.draw("outlet", 81),
                    "inlets": [cs.draw("i0", 81)] if cs.flip("inl", 40)
                    else None,
                    "again": cs.flip("again", 40),
                    "nval": cs.choice("nval", [None, None, 4, 8, 20]),
                    "outlet2": cs.draw("outlet2", 81),
                    "boundary": cs.flip("boundary", 40)})
    add("grid.accumulate", [FD], lambda a, o: hgrid.accumulate(
        a.fd, nprint=o["np"], max_accumulated_cells=o["mx"]),
        lambda cs: {"np": cs.choice("np", [100, 1, 7]),
                    "mx": cs.choice("mx", [-1, 3])})
    add("grid.accumulate(field)", [FD, ("f", "field", None)],
        lambda a, o: hgrid.accumulate(a.fd, a.f, nprint=50), weight=6)
    add("grid.slope", [FD, ("f", "field", None)],
        lambda a, o: hgrid.slope(a.fd, a.f, nprint=o["np"]),
        lambda cs: {"np": cs.choice("np", [100, 3])})
    add("grid.voronoi", [CA, ("xy", "gridxy", None)],
        lambda a, o: hgrid.voronoi(a.c, a.xy))
    add("grid.delineate_river", [FD],
        lambda a, o: hgrid.delineate_river(
            a.fd, o["c"] % int(a.fd.nrows * a.fd.ncols), nval=200),
        lambda cs: {"c": cs.draw("c", 81)})
    def get_grid_twice(a, o):
        """Two consecutive calls; in between a temp cleaner has gone over
        whatever the first call left in the temporary directory."""
        g1 = hgrid.get_grid(o["name"])
        d1 = rdigest(g1)
        clean_tempdir()
        try:
            g2 = hgrid.get_grid(o["name"])
        except Exception as e:
            raise Violation("consecutive_calls_differ",
                            f"get_grid({o['name']!r}) returned a grid, the "
                            f"same call right after raised {e!r}",
                            "grid.get_grid")
        if rdigest(g2) != d1:
            raise Violation("consecutive_calls_differ",
                            f"get_grid({o['name']!r}) twice: the second call "
                            f"returned another grid (sum {float(np.nansum(g1.data))}"
                            f" then {float(np.nansum(g2.data))})",
                            "grid.get_grid")
        return g2
    add("grid.get_grid", [], get_grid_twice,
        lambda cs: {"name": cs.choice("name", ["AWAP", "WATERDYN"])},
        weight=1)
    add("grid.gsmooth", [G], lambda a, o: hgrid.gsmooth(
        a.g, coastwin=o["w"], sigma=o["s"], minval=o["mv"]),
        lambda cs: {"w": cs.choice("w", [50, 3]),
                    "s": cs.choice("s", [5.0, 0.3]),
                    "mv": cs.choice("mv", [-np.inf, 10.0])}, weight=2)
    add("grid.gsmooth(mask)", [G, ("mask", "field", {"int"})],
        lambda a, o: hgrid.gsmooth(a.g, mask=a.mask, coastwin=o["w"],
                                   sigma=o["s"]),
        lambda cs: {"w": cs.choice("w", [50, 3]),
                    "s": cs.choice("s", [5.0, 0.3])}, weight=2)
    # ---- gutils
    add("gutils.points_inside_polygon", [("pts", "points", None),
                                         ("poly", "polygon", None)],
        lambda a, o: gutils.points_inside_polygon(a.pts, a.poly))
    add("gutils.points_inside_polygon(inside=)",
        [("pts", "points", None), ("poly", "polygon", None),
         ("inside", "inside", None)],
        lambda a, o: np.array(gutils.points_inside_polygon(
            a.pts, a.poly, inside=a.inside), copy=True), outs=("inside",),
        weight=4)
    def inside_shared(a, o):
        """One answer vector reused for two polygons: what it holds after the
        second call is the answer for the second polygon alone."""
        gutils.points_inside_polygon(a.pts, a.poly, inside=a.inside)
        r2 = np.array(gutils.points_inside_polygon(a.pts, a.poly2,
                                                   inside=a.inside), copy=True)
        ref = np.asarray(gutils.points_inside_polygon(a.pts, a.poly2))
        if not np.array_equal(r2, ref):
            raise Violation("consecutive_calls_differ",
                            "points_inside_polygon(inside=<vector used for "
                            "another polygon before>) differs from the call "
                            f"without a vector: {r2.tolist()[:12]} vs "
                            f"{ref.tolist()[:12]}",
                            "gutils.points_inside_polygon(shared inside=)")
        return r2
    add("gutils.points_inside_polygon(shared inside=)",
        [("pts", "points", None), ("poly", "polygon", None),
         ("poly2", "polygon", None), ("inside", "inside", None)],
        inside_shared, outs=("inside",), weight=2)
    # ---- plot helpers
    add("boxplot.boxplot_stats", [V],
        lambda a, o: boxplot.boxplot_stats(a.x, o["b"], o["w"]),
        lambda cs: {"b": cs.choice("b", [50.0, 40.0]),
                    "w": cs.choice("w", [90.0, 95.0])})

    def do_boxplot(a, o):
        kw = {}
        if o["by"]:
            kw["by"] = a.by
        bp = boxplot.Boxplot(a.df, show_text=o["txt"], **kw)
        st = bp.stats
        if o["draw"]:
            fig, ax = plt.subplots()
            try:
                bp.draw(ax=ax)
            finally:
                plt.close(fig)
        return st
    add("boxplot.Boxplot", [("df", "df", None), ("by", "by", None)],
        do_boxplot, lambda cs: {"by": cs.flip("by", 40),
                                "txt": cs.flip("txt", 50),
                                "draw": cs.flip("draw", 30)}, plot=True,
        weight=1)
    add("boxplot.Boxplot(array)", [("m", "mat", None)],
        lambda a, o: boxplot.Boxplot(a.m).stats, plot=True, weight=1)

    def do_violin(a, o):
        vl = violinplot.Violin(a.df, show_text=False)
        out = [vl.stats, vl.kde_x, vl.kde_y]
        if o["draw"]:
            fig, ax = plt.subplots()
            try:
                vl.draw(ax=ax)
            finally:
                plt.close(fig)
        return out
    add("violinplot.Violin", [("df", "df", None)], do_violin,
        lambda cs: {"draw": cs.flip("draw", 30)}, plot=True, weight=1)
    add("putils.kde", [("xy", "xy", None)],
        lambda a, o: putils.kde(a.xy, ngrid=o["n"]),
        lambda cs: {"n": cs.choice("n", [10, 25])}, plot=True)

    def do_ecdf(a, o):
        fig, ax = plt.subplots()
        try:
            r = putils.ecdfplot(ax, a.df, label_stat=o["ls"])
            return {k: [ln.get_ydata() for ln in ax.get_lines()]
                    for k in ["lines"]}
        finally:
            plt.close(fig)
    add("putils.ecdfplot", [("df", "df", None)], do_ecdf,
        lambda cs: {"ls": cs.choice("ls", [None, "mean", "median"])},
        plot=True, weight=1)

    def do_qq(a, o):
        fig, ax = plt.subplots()
        try:
            putils.qqplot(ax, a.x, addline=o["al"], censor=o["c"])
            return [ln.get_xydata() for ln in ax.get_lines()]
        finally:
            plt.close(fig)
    add("putils.qqplot", [V], do_qq,
        lambda cs: {"al": cs.flip("al", 50),
                    "c": cs.choice("c", [None, 0.0])}, plot=True, weight=1)

    def do_bivar(a, o):
        fig, ax = plt.subplots()
        try:
            putils.bivarnplot(ax, a.xy, add_semicorr=o["sc"])
            return None
        finally:
            plt.close(fig)
    add("putils.bivarnplot", [("xy", "xy", None)], do_bivar,
        lambda cs: {"sc": cs.flip("sc", 50)}, plot=True, weight=1)

    def do_scattercat(a, o):
        # one set of category bounds used for several panels: the caller's
        # bounds (list or array) are an argument like the data
        fig, ax = plt.subplots()
        try:
            cuts = a.cuts if o["as_array"] else a.cuts.tolist()
            plotted, cats = putils.scattercat(
                ax, a.xy[:, 0], a.xy[:, 1], a.z, cuts=cuts, cmap=None,
                show_extremes_in_legend=o["ext"])
            out = [np.asarray(cats), sorted(plotted.keys()),
                   [plotted[k]["label"] for k in sorted(plotted.keys())]]
            if not o["as_array"]:
                out.append(cuts == a.cuts.tolist())   # the list is unchanged
            return out
        finally:
            plt.close(fig)
    add("putils.scattercat(cuts)", [("xy", "xy", {"xyN2"}),
                                    ("z", "series", {"f8ser"}),
                                    ("cuts", "cuts", None)], do_scattercat,
        lambda cs: {"as_array": cs.flip("as_array", 60),
                    "ext": cs.flip("ext", 50)}, plot=True, weight=2)
    return E


class Args:
    pass


PANDAS_ALIAS = {"vec": "series", "mat": "df", "ens": "ensdf"}


# ---------------------------------------------------------------------------
# plan and execution
# ---------------------------------------------------------------------------
def make_plan(cs, pool, entries, nsteps):
    plan = []          # dicts: entry index, ids, opts, npseed, reissue_of
    weights = [(i, e.weight) for i, e in enumerate(entries)]
    for step in range(nsteps):
        with cs.span("call"):
            if plan and cs.flip("reissue", 30):
                back = 1 + cs.draw("back", min(60, len(plan)))
                src = plan[len(plan) - back]
                while src["reissue_of"] is not None:
                    src = plan[src["reissue_of"]]
                plan.append({"e": src["e"], "ids": src["ids"],
                             "opts": src["opts"], "npseed": src["npseed"],
                             "reissue_of": src["index"], "index": len(plan)})
                continue
            ei = cs.weighted("entry", weights)
            e = entries[ei]
            ids = {}
            chosen = []
            ok = True
            for (pname, kind, tags) in e.needs:
                plain = {t for t in (tags or ()) if not t.startswith("@")}
                cands = [o for o in pool.by_kind.get(kind, [])
                         if plain <= o.tags]
                # pandas inputs stand in for arrays in a share of the calls
                alias = PANDAS_ALIAS.get(kind)
                if alias and not plain and pool.by_kind.get(alias) and \
                        cs.flip("pandas." + pname, 20):
                    cands = list(pool.by_kind[alias])
                for t in (tags or ()):
                    if t.startswith("@pair:"):
                        # must share a pairing tag with an already bound object
                        other = pool.objs[ids[t[6:]]]
                        cands = [o for o in cands
                                 if any(x.startswith("pair") for x in
                                        (o.tags & other.tags))]
                if not cands:
                    ok = False
                    break
                # sharing: reuse an object already bound to another parameter
                same = [o for o in cands if o.id in chosen]
                if same and cs.flip("share." + pname, 15):
                    o = same[cs.draw("share.which", len(same))]
                else:
                    o = cands[cs.draw("bind." + pname, len(cands))]
                ids[pname] = o.id
                chosen.append(o.id)
            if not ok:
                continue
            opts = e.opts(cs) if e.opts else {}
            plan.append({"e": ei, "ids": ids, "opts": opts,
                         "npseed": cs.draw("npseed", 1 << 24),
                         "reissue_of": None, "index": len(plan)})
    return plan


def call_key(c, entries):
    return entries[c["e"]].name + "|" + json.dumps(
        [sorted(c["ids"].items()), repr(c["opts"]), c["npseed"]],
        default=str)


def execute_call(c, pool, entries, ctx, log, snaps):
    """Run one call with the snapshot oracle. Returns (outcome, digest, vec)."""
    import matplotlib.pyplot as plt
    e = entries[c["e"]]
    a = Args()
    for p, oid in c["ids"].items():
        setattr(a, p, pool.objs[oid].obj)
    # grids may legitimately change dtype between calls (the statement only
    # protects their cell values): two calls have "the same arguments" only
    # if the grid arguments also have the same dtype
    stamp = tuple(str(np.dtype(getattr(a, p).dtype))
                  for p in sorted(c["ids"])
                  if hasattr(getattr(a, p), "_getsize"))
    np.random.seed(c["npseed"])
    exc = None
    res = None
    with warnings.catch_warnings(), np.errstate(all="ignore"):
        warnings.simplefilter("ignore")
        if _WERROR[0] and not e.plot:
            warnings.filterwarnings("error", module=r"hydrodiy\.")
        try:
            res = e.fn(a, c["opts"])
        except Violation:
            raise
        except Exception as ex:
            exc = type(ex).__name__
        finally:
            if e.plot:
                plt.close("all")
    # ---- a temp cleaner: whatever a call left behind in the temporary
    # directory is not there (intact) any more at the next call
    nleft = clean_tempdir()
    if nleft:
        ctx.hit("fault.tempdir_leftovers_truncated", nleft)
    # ---- arguments untouched, other pool objects untouched, canaries intact
    bound = set(c["ids"].values())
    allowed = {c["ids"][p] for p in e.outs if p in c["ids"]}
    for o in pool.objs:
        if o.id in allowed:
            snaps[o.id] = snap(o.obj)
            continue
        s = snap(o.obj)
        if s != snaps[o.id]:
            role = [p for p, i in c["ids"].items() if i == o.id]
            inv = "argument_modified" if role else "bystander_modified"
            raise Violation(inv, f"{e.name}({c['opts']}) changed pool object "
                            f"#{o.id} {o.desc}"
                            + (f" bound as {role}" if role else
                               " (not an argument of this call)")
                            + f": {snap_str(snaps[o.id])} -> {snap_str(s)}",
                            e.name)
    bad = pool.guards_ok()
    if bad is not None:
        raise Violation("canary_overwritten", f"{e.name}({c['opts']}) wrote "
                        f"outside object #{bad.id} {bad.desc}", e.name)
    if exc is not None:
        return ("raise", exc, [], stamp)
    out = ("ok", rdigest(res), rvector(res), stamp)
    if e.owned:
        # the caller owns what it was handed and may overwrite it; a function
        # that hands out a cached or internal buffer shows at the next call
        n = scribble_result(res, pool)
        if n:
            ctx.hit("fault.caller_overwrites_returned_arrays", n)
            for o in pool.objs:
                if snap(o.obj) != snaps[o.id]:
                    # the result was a view of a pool object after all: this
                    # says nothing about the function; put the snapshot right
                    snaps[o.id] = snap(o.obj)
                    ctx.hit("probe.result_aliased_a_pool_object")
    return out


def _pool_arrays(pool):
    import pandas as pd
    out = []
    for o in pool.objs:
        x = o.obj
        if isinstance(x, np.ndarray):
            out.append(x)
        elif isinstance(x, (pd.Series, pd.DataFrame)):
            out.append(x.values)
        elif isinstance(x, pd.Index) and x.dtype.kind in "fiu":
            out.append(np.asarray(x))
        elif type(x).__name__ == "array" and hasattr(x, "typecode"):
            if len(x):
                out.append(np.frombuffer(x, dtype=x.typecode))
        elif hasattr(x, "_getsize") and hasattr(x, "data"):
            out.append(np.asarray(x.data))
        elif hasattr(x, "flowdir") and hasattr(x, "delineate_area"):
            out.append(np.asarray(x.flowdir.data))
            for nm in ("_idxcells_area", "_idxcells_area_filled",
                       "_idxcells_boundary", "_xycells_boundary",
                       "_idxinlets"):
                v = getattr(x, nm, None)
                if isinstance(v, np.ndarray):
                    out.append(v)
        elif hasattr(x, "params") and hasattr(x, "constants"):
            for vec in (x.params, x.constants):
                for nm in ("_values", "_mins", "_maxs", "_defaults"):
                    out.append(getattr(vec, nm))
    out.extend(pool.parents)
    return out


def scribble_result(res, pool, depth=0, arrays=None):
    """Overwrite plain numeric ndarrays found in a result (not views of pool
    objects, not read-only). Returns the number of arrays overwritten."""
    if depth > 3:
        return 0
    if arrays is None:
        arrays = _pool_arrays(pool)
    n = 0
    if isinstance(res, np.ndarray):
        if res.dtype.kind in "fiu" and res.size and res.flags.writeable \
                and not any(np.may_share_memory(res, a) for a in arrays):
            res[...] = 77 if res.dtype.kind != "f" else -7.75e7
            n += 1
    elif isinstance(res, (list, tuple)):
        for x in res:
            n += scribble_result(x, pool, depth + 1, arrays)
    elif isinstance(res, dict):
        for x in res.values():
            n += scribble_result(x, pool, depth + 1, arrays)
    return n


_TMPDIR = [None]
_WERROR = [False]


def clean_tempdir():
    d = _TMPDIR[0]
    n = 0
    if d and os.path.isdir(d):
        for root, _, files in os.walk(d):
            for f in files:
                try:
                    with open(os.path.join(root, f), "r+b") as fo:
                        fo.truncate(0)
                    n += 1
                except OSError:
                    pass
    return n


def run_session(cs, log, ctx, order_seed=None, collect=None):
    import tempfile
    d = tempfile.mkdtemp(prefix="hyverif-tmp-", dir="/dev/shm")
    _TMPDIR[0] = d
    old_tmp = tempfile.tempdir
    tempfile.tempdir = d
    os.environ["TMPDIR"] = d
    try:
        return _run_session(cs, log, ctx, order_seed, collect)
    finally:
        tempfile.tempdir = old_tmp
        import shutil
        shutil.rmtree(d, ignore_errors=True)


def _run_session(cs, log, ctx, order_seed=None, collect=None):
    entries = catalogue()
    with cs.span("pool"):
        pool = build_pool(cs, ctx)
    with cs.span("plan"):
        nsteps = cs.weighted("nsteps", [(60, 2), (120, 3), (250, 1), (25, 1)])
        plan = make_plan(cs, pool, entries, nsteps)
        # a session whose process turns the warnings attributed to hydrodiy
        # modules into errors (python -W error::Warning:hydrodiy..., a test
        # runner's filterwarnings): a call then raises where it would warn -
        # every time it is made, not only the first time
        _WERROR[0] = cs.flip("warnings_as_errors", 25)
        if _WERROR[0]:
            ctx.hit("fault.hydrodiy_warnings_are_errors")
    log.ev("pool", len(pool.objs), pool.N, pool.M,
           [o.desc for o in pool.objs][:80])
    snaps = {o.id: snap(o.obj) for o in pool.objs}
    order = list(range(len(plan)))
    if order_seed is not None:
        # second session: unique calls only, in another order
        uniq = [c["index"] for c in plan if c["reissue_of"] is None]
        rs = np.random.RandomState(order_seed)
        rs.shuffle(uniq)
        order = uniq
    first = {}
    nok = 0
    nre = 0
    for k in order:
        c = plan[k]
        e = entries[c["e"]]
        log.kind(e.name)
        ctx.hit("steps")
        outcome = execute_call(c, pool, entries, ctx, log, snaps)
        log.ev("call", k, e.name, sorted(c["ids"].items()), repr(c["opts"]),
               c["npseed"], outcome[0], outcome[1])
        ctx.hit("call." + outcome[0])
        ctx.hit("entry_ok." + e.name if outcome[0] == "ok" else
                "entry_raise." + e.name)
        if outcome[0] == "ok":
            nok += 1
        if len(set(c["ids"].values())) < len(c["ids"]):
            ctx.hit("probe.same_object_bound_twice")
        if c["reissue_of"] is None:
            first[k] = outcome
            if collect is not None:
                collect[call_key(c, entries)] = [outcome[0], outcome[1],
                                                 outcome[2], list(outcome[3])]
        else:
            ref = first.get(c["reissue_of"])
            if ref is None:
                continue
            nre += 1
            ctx.hit("probe.reissue_compared")
            if k - c["reissue_of"] >= 5:
                ctx.hit("probe.reissue_separated_by_5_or_more_calls")
            if ref[3] != outcome[3]:
                # a grid argument changed dtype in between.  For the
                # functions that make that change themselves (accumulate,
                # slope: same cells, wider type) the values returned must
                # still agree; for the others the result may depend on the
                # dtype and nothing is concluded
                if e.name.startswith(("grid.accumulate", "grid.slope")) and \
                        ref[0] == "ok" and outcome[0] == "ok":
                    ctx.hit("probe.reissue_compared_by_value_across_dtype")
                    if not _close(ref[2], outcome[2]):
                        raise Violation(
                            "reissue_differs",
                            f"{e.name}({c['opts']}) on pool objects "
                            f"{c['ids']}: call #{c['reissue_of']} (grid "
                            f"dtypes {ref[3]}) and re-issue #{k} (grid dtypes "
                            f"{outcome[3]}, same cell values) return "
                            f"different values: {ref[2][:6]} vs "
                            f"{outcome[2][:6]}", e.name)
                else:
                    ctx.hit("probe.reissue_skipped_grid_dtype_changed")
                continue
            if ref[0] != outcome[0] or ref[1] != outcome[1]:
                raise Violation(
                    "reissue_differs",
                    f"{e.name}({c['opts']}) on pool objects {c['ids']} with "
                    f"numpy seed {c['npseed']}: call #{c['reissue_of']} gave "
                    f"{ref[0]}:{ref[1]}, re-issue #{k} gave "
                    f"{outcome[0]}:{outcome[1]}", e.name)
    if nok >= 20 and nre >= 5:
        ctx.hit("nontrivial")
    return pool, plan


def run(cs, log, ctx):
    import matplotlib
    matplotlib.use("Agg")
    run_session(cs, log, ctx)


# ---------------------------------------------------------------------------
# cross-interpreter comparison: same calls, other order, fresh interpreter
# ---------------------------------------------------------------------------
class _MiniCtx:
    workdir = None

    def __init__(self):
        import collections
        self.stats = collections.Counter()

    def hit(self, k, n=1):
        self.stats[k] += n

    def state(self, *a):
        pass

    def known(self, sig):
        return False


def session_results(seed, idx, order_seed=None):
    """Per-call outcomes of session idx ({call key: [kind, digest, vector,
    grid dtype stamp]}); order_seed=None is the planned order."""
    from ..core import ChoiceStream, EventLog, seed_for
    import matplotlib
    matplotlib.use("Agg")
    cs = ChoiceStream(seed=seed_for(seed, "C18", idx))
    from ..core import Violation
    collect = {}
    try:
        run_session(cs, EventLog(), _MiniCtx(), order_seed=order_seed,
                    collect=collect)
    except Violation as v:
        # an oracle fired in this execution of the session (it did not in the
        # batch): recorded, the comparison reports it
        collect["__violation__"] = ["violation", v.signature,
                                    str(v.detail)[:600], None]
    return collect


def _close(a, b):
    if len(a) != len(b):
        return False
    for x, y in zip(a, b):
        if x != x or y != y:
            if not (x != x and y != y):
                return False
        elif x != y and abs(x - y) > 1e-13 * max(abs(x), abs(y), 1e-300):
            return False
    return True


def compare_sessions(first, second):
    """-> (ncompared, nrounding, mismatches)"""
    ncomp = nround = 0
    bad = []
    for ses in (first, second):
        if "__violation__" in ses:
            bad.append(("__violation__", first.get("__violation__", ["ok"])[:3],
                        second.get("__violation__", ["ok"])[:3]))
            return 0, 0, bad
    for key, r2 in second.items():
        r1 = first.get(key)
        if r1 is None or r1[3] != r2[3]:
            continue
        ncomp += 1
        if r1[0] == r2[0] and r1[1] == r2[1]:
            continue
        if r1[0] == "ok" and r2[0] == "ok" and r1[2] and \
                _close(r1[2], r2[2]):
            nround += 1
            continue
        bad.append((key, r1[:2], r2[:2]))
    return ncomp, nround, bad


def cross_check(seed, tier, idxs, hashseed="7", firsts=None):
    """Run sessions `idxs` in another order in a fresh interpreter and compare
    call by call with the planned order executed here."""
    from ..runner import VERIF
    env = dict(os.environ)
    env["PYTHONHASHSEED"] = hashseed
    env["VERIF_HASHSEED"] = hashseed
    env["VERIF_SEED"] = str(seed)
    cmd = [sys.executable, str(VERIF / "vcheck"), "C18", "--session2",
           ",".join(str(i) for i in idxs)]
    r = subprocess.run(cmd, capture_output=True, text=True, env=env,
                       timeout=3000, cwd=str(VERIF))
    if r.returncode != 0:
        raise RuntimeError(f"second session failed rc={r.returncode}: "
                           f"{r.stdout[-1500:]} {r.stderr[-1500:]}")
    line = [l for l in r.stdout.splitlines() if l.startswith("SESSION2 ")][-1]
    second = json.loads(line[len("SESSION2 "):])
    out = {"compared": 0, "rounding": 0, "mismatches": []}
    for i in idxs:
        first = firsts[i] if firsts is not None else \
            session_results(seed, i)
        n, nr, bad = compare_sessions(first, second[str(i)])
        out["compared"] += n
        out["rounding"] += nr
        for b in bad:
            out["mismatches"].append((i,) + b)
    return out


def session2_main(seed, idxs):
    res = {}
    for i in idxs:
        order_seed = (seed * 7919 + i * 104729 + 13) % (2 ** 31)
        res[str(i)] = session_results(seed, i, order_seed=order_seed)
    return res


def post_batch(seed, tier, ordered, say):
    """Hook called by the runner after the main batch. Returns
    (rc_or_None, extra_evidence)."""
    n = CROSS[tier]
    idxs = [r["idx"] for r in ordered if r["result"] == "ok"]
    step = max(1, len(idxs) // max(1, n))
    sample = idxs[::step][:n]
    if not sample:
        return None, {}
    groups = [sample[i::8] for i in range(8) if sample[i::8]]
    from concurrent.futures import ThreadPoolExecutor
    tot = {"compared": 0, "rounding": 0, "mismatches": []}
    # the planned-order sessions run here, one after the other (the numpy
    # global RNG is process-wide); only the fresh interpreters run in parallel
    firsts = {i: session_results(seed, i) for i in sample}
    with ThreadPoolExecutor(len(groups)) as ex:
        for out in ex.map(lambda g: cross_check(seed, tier, g, firsts=firsts),
                          groups):
            tot["compared"] += out["compared"]
            tot["rounding"] += out["rounding"]
            tot["mismatches"] += out["mismatches"]
    extra = {"cross_interpreter_sessions": len(sample),
             "cross_interpreter_calls_compared": tot["compared"],
             "cross_interpreter_rounding_level_differences": tot["rounding"],
             "cross_interpreter_mismatches": len(tot["mismatches"])}
    if tot["mismatches"]:
        from ..runner import OUT
        i, key, r1, r2 = tot["mismatches"][0]
        OUT.joinpath("replays").mkdir(parents=True, exist_ok=True)
        path = OUT / "replays" / f"C18-{seed}-{i}-cross.json"
        path.write_text(json.dumps({
            "property": "C18", "mode": "cross", "seed": seed, "run_index": i,
            "call": key, "planned_order_result": r1,
            "other_order_fresh_interpreter_result": r2,
            "all_mismatches": tot["mismatches"][:20],
            "signature": "result_depends_on_session_history"}, indent=1))
        say(f"VIOLATION property=C18 replay={path}")
        say(f"  signature=result_depends_on_session_history call={key[:300]} "
            f"{r1} vs {r2}")
        return 1, extra
    return None, extra


def replay(path):
    """Replay hook for cross-session files (tree replays go the normal way)."""
    from ..runner import say, replay_file
    js = json.load(open(path))
    if js.get("mode") != "cross":
        js, r = replay_file(path, keep=True)
        for line in r.get("trace", [])[-40:]:
            say("  " + line)
        say(f"replay property=C18 seed={js['seed']} run={js['run_index']} "
            f"result={r['result']} sig={r['sig']} digest={r['digest']}")
        if r["result"] == "violation":
            say(f"VIOLATION property=C18 replay={path}")
            say(f"  detail={r['detail'][:1500]}")
            return 1
        return 2 if r["result"] == "harness_error" else 0
    out = cross_check(js["seed"], "quick", [js["run_index"]])
    say(f"replay property=C18 cross-session compared={out['compared']} "
        f"mismatches={len(out['mismatches'])}")
    if out["mismatches"]:
        say(f"VIOLATION property=C18 replay={path}")
        say(f"  sig=result_depends_on_session_history {out['mismatches'][0]}")
        return 1
    return 0


def warmup():
    import matplotlib
    matplotlib.use("Agg")
    import matplotlib.pyplot  # noqa: F401
    catalogue()
