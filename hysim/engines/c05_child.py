"""Child side of C05: runs inside an interpreter whose hydrodiy extension
modules were built with ASan/UBSan (and, for c_crps.c / c_dscore.c, with the
allocation-fault shim).  Talks to the parent through a progress file."""
import ctypes
import faulthandler
import json
import os
import sys
import warnings

import numpy as np


def emit(fd, *items):
    os.write(fd, (json.dumps(items, default=str) + "\n").encode())


class Ctx:
    workdir = None

    def hit(self, *a, **k):
        pass


STANDARD_ENV = {"HOME", "PATH", "USER", "LOGNAME", "TMPDIR", "TEMP", "TMP",
                "LANG", "LC_ALL", "LC_CTYPE", "TZ", "PWD", "SHELL", "DISPLAY",
                "PYTHONPATH", "MPLBACKEND", "USERNAME", "HOSTNAME",
                "SOURCE_DATE_EPOCH"}


def scan_env_switches():
    """Names of environment variables read anywhere in the hydrodiy tree
    under test (C kernels: getenv("X"); Python: os.environ / os.getenv)."""
    import re
    import hydrodiy
    root = os.path.dirname(os.path.abspath(hydrodiy.__file__))
    pats = [re.compile(r'getenv\(\s*["\']([A-Za-z_][A-Za-z0-9_]*)["\']'),
            re.compile(r'environ(?:\.get\(|\[)\s*["\']([A-Za-z_][A-Za-z0-9_]*)'
                       r'["\']')]
    names = set()
    for dp, dn, fns in os.walk(root):
        if os.sep + "tests" in dp:
            continue
        for fn in fns:
            if not fn.endswith((".py", ".c", ".h", ".pyx")) or \
                    fn.startswith("c_hydrodiy_") and fn.endswith(".c"):
                continue
            try:
                txt = open(os.path.join(dp, fn), errors="replace").read()
            except OSError:
                continue
            for pat in pats:
                names.update(pat.findall(txt))
    return sorted(n for n in names if n not in STANDARD_ENV)


ENV_SWITCHES = []


def run_sessions(args, fd):
    ENV_SWITCHES[:] = scan_env_switches()
    from hysim.core import ChoiceStream, EventLog, seed_for
    from hysim.engines import c05_session as S
    from hysim.engines.c18_session import make_plan, Args, rdigest
    import matplotlib
    matplotlib.use("Agg")
    seed = args["seed"]
    entries = S.catalogue()
    # every kernel returns an error code: record the codes seen during a call
    # of the public API (a wrapper that ignores one answers unusable input
    # with neither an exception nor a sentinel)
    kcodes = []
    import c_hydrodiy_data, c_hydrodiy_stat, c_hydrodiy_gis

    def _wrap(fname, f):
        def w(*a, **k):
            r = f(*a, **k)
            if isinstance(r, (int, np.integer)) and not isinstance(r, bool):
                kcodes.append((fname, int(r)))
            return r
        return w
    for mod in (c_hydrodiy_data, c_hydrodiy_stat, c_hydrodiy_gis):
        for fname in dir(mod):
            f = getattr(mod, fname)
            if callable(f) and not fname.startswith("_") and \
                    type(f).__name__ in ("cython_function_or_method",
                                         "builtin_function_or_method"):
                setattr(mod, fname, _wrap(fname, f))
    for idx in args["sessions"]:
        cs = ChoiceStream(seed=seed_for(seed, "C05", idx))
        log = EventLog()
        with cs.span("pool"):
            pool = S.build_pool(cs, Ctx())
        with cs.span("plan"):
            nsteps = cs.weighted("nsteps", [(80, 2), (160, 3), (300, 1)])
            plan = make_plan(cs, pool, entries, nsteps)
        # switches the code reads from the process environment (debug traces,
        # feature toggles): found by scanning the tree under test, all set in
        # a share of the sessions
        with cs.span("env"):
            env_on = cs.flip("env_switches", 35)
        for nm in ENV_SWITCHES:
            if env_on:
                os.environ[nm] = "1"
            else:
                os.environ.pop(nm, None)
        keep = args.get("keep")
        emit(fd, "BEGIN", idx, len(plan), len(pool.objs))
        if ENV_SWITCHES:
            emit(fd, "ENV", idx, env_on, ENV_SWITCHES)
        nok = nraise = 0
        kinds = []
        for c in plan:
            k = c["index"]
            if keep is not None and k not in keep:
                continue
            e = entries[c["e"]]
            emit(fd, "CALL", idx, k, e.name, repr(c["opts"]),
                 [pool.objs[i].desc for i in c["ids"].values()])
            faulthandler.dump_traceback_later(args.get("watchdog", 30),
                                              exit=True)
            a = Args()
            for p, oid in c["ids"].items():
                setattr(a, p, pool.objs[oid].obj)
            np.random.seed(c["npseed"])
            out = None
            del kcodes[:]
            try:
                with warnings.catch_warnings(), np.errstate(all="ignore"):
                    warnings.simplefilter("ignore")
                    r = e.fn(a, c["opts"])
                out = "ok:" + rdigest(r)
                nok += 1
                bad = [kc for kc in kcodes if kc[1] > 0]
                if bad and not e.name.startswith("c_hydrodiy_") and \
                        "smaller + larger" not in e.name:
                    # (the excepted entries catch exceptions of their own
                    # intermediate steps)
                    emit(fd, "KERR", idx, k, e.name, bad[:3], repr(r)[:120])
                    os._exit(5)
            except Exception as ex:
                out = "raise:" + type(ex).__name__
                nraise += 1
            faulthandler.cancel_dump_traceback_later()
            kinds.append(e.name)
            for sig in S.KNOWN_HITS:
                emit(fd, "KNOWNHIT", idx, k, sig)
            del S.KNOWN_HITS[:]
            log.ev(k, e.name, out)
            bad = pool.guards_ok()
            if bad is None:
                for o in pool.objs:
                    if "readonly" in o.tags and np.any(np.asarray(o.obj) != 0):
                        bad = o      # a kernel wrote into a read-only buffer
                        break
            if bad is not None:
                emit(fd, "CANARY", idx, k, e.name, bad.desc)
                os._exit(3)
        emit(fd, "DONE", idx, log.digest(), nok, nraise,
             len(set(kinds)))


def run_big(args, fd):
    """One call per workload with lengths / cell counts where products of
    sizes leave 32-bit range."""
    from hysim.engines import c05_session as S
    seed = args["seed"]
    entries = []
    for name, fn in S.big_catalogue():
        if name not in [e[0] for e in entries]:
            entries.append((name, fn))
    for w in args["big"]:
        rs = np.random.RandomState((seed * 7919 + w * 104729 + 17) % (2 ** 31))
        # workloads enumerate (entry, length) pairs: the first
        # len(entries)*len(BIG_N) of them cover every pair once
        name, fn = entries[w % len(entries)]
        n = int(S.BIG_N[(w // len(entries)) % len(S.BIG_N)])
        emit(fd, "BIG", w, name, n)
        faulthandler.dump_traceback_later(args.get("watchdog", 600), exit=True)
        try:
            with warnings.catch_warnings(), np.errstate(all="ignore"):
                warnings.simplefilter("ignore")
                fn(rs, n)
            out = "ok"
        except Exception as ex:
            out = "raise:" + type(ex).__name__
        faulthandler.cancel_dump_traceback_later()
        emit(fd, "BIGRES", w, name, n, out)


def run_alloc(args, fd):
    """Allocation-fault enumeration on metrics.crps / metrics.dscore."""
    import c_hydrodiy_stat
    from hydrodiy.stat import metrics
    lib = ctypes.CDLL(c_hydrodiy_stat.__file__)
    lib.hyverif_arm.argtypes = [ctypes.c_ulonglong, ctypes.c_longlong]
    for f in ("hyverif_nalloc", "hyverif_nfree", "hyverif_nfailed",
              "hyverif_live"):
        getattr(lib, f).restype = ctypes.c_longlong
    seed = args["seed"]
    for w in args["workloads"]:
        rs = np.random.RandomState((seed * 1000003 + w) % (2 ** 31))
        n = int(rs.choice([1, 2, 3, 7, 30]))
        m = int(rs.choice([1, 2, 5, 20, 100]))
        ens = np.exp(rs.normal(0, 1, (n, m)))
        if rs.uniform() < 0.4:
            ens = np.round(ens)
        obs = np.exp(rs.normal(0, 1, n))
        if rs.uniform() < 0.3:
            obs[0] = ens.max() + 10
        obs0, ens0 = obs.copy(), ens.copy()
        for fn in ("crps", "dscore"):
            f = getattr(metrics, fn)
            lib.hyverif_arm(0, -1)
            with warnings.catch_warnings(), np.errstate(all="ignore"):
                warnings.simplefilter("ignore")
                try:
                    ref = f(obs, ens)
                    refd = ("ok", np.asarray(ref, dtype=np.float64).tobytes().hex()
                            if fn == "dscore" else
                            np.asarray(ref[0].values).tobytes().hex())
                except Exception as ex:
                    refd = ("raise", type(ex).__name__)
            nalloc = int(lib.hyverif_nalloc())
            live = int(lib.hyverif_live())
            emit(fd, "REF", w, fn, n, m, nalloc, live, refd[0])
            if live != 0:
                emit(fd, "LEAK", w, fn, 0, live)
            nmask = (1 << nalloc) if nalloc <= 8 else 0
            for mask in range(1, nmask):
                emit(fd, "MASK", w, fn, mask)
                lib.hyverif_arm(mask, -1)
                with warnings.catch_warnings(), np.errstate(all="ignore"):
                    warnings.simplefilter("ignore")
                    try:
                        f(obs, ens)
                        outcome = "returned"
                    except Exception as ex:
                        outcome = "raise:" + type(ex).__name__
                na, nf, nfail, live = (int(lib.hyverif_nalloc()),
                                       int(lib.hyverif_nfree()),
                                       int(lib.hyverif_nfailed()),
                                       int(lib.hyverif_live()))
                untouched = np.array_equal(obs, obs0) and \
                    np.array_equal(ens, ens0)
                # next un-faulted call must still give the reference
                lib.hyverif_arm(0, -1)
                with warnings.catch_warnings(), np.errstate(all="ignore"):
                    warnings.simplefilter("ignore")
                    try:
                        again = f(obs, ens)
                        ad = ("ok", np.asarray(again, dtype=np.float64).tobytes().hex()
                              if fn == "dscore" else
                              np.asarray(again[0].values).tobytes().hex())
                    except Exception as ex:
                        ad = ("raise", type(ex).__name__)
                emit(fd, "MASKRES", w, fn, mask, outcome, na, nf, nfail, live,
                     untouched, ad == refd)
        # k-th allocation of a mixed session fails
        for kth in range(0, 16):
            emit(fd, "KTH", w, kth)
            lib.hyverif_arm(0, kth)
            with warnings.catch_warnings(), np.errstate(all="ignore"):
                warnings.simplefilter("ignore")
                for fn in ("crps", "dscore", "crps"):
                    try:
                        getattr(metrics, fn)(obs, ens)
                    except Exception:
                        pass
            emit(fd, "KTHRES", w, kth, int(lib.hyverif_nalloc()),
                 int(lib.hyverif_live()))
    # ---- resource limit: the same kernels on worker threads with a small
    # stack and ensembles of many members (work space must not be taken from
    # the stack in proportion to the input)
    import threading
    for w in args["workloads"][:2]:
        for stack_kb, m in ((512, 30000), (1024, 60000)):
            rs = np.random.RandomState(w + 17)
            ens = np.exp(rs.normal(0, 1, (2, m)))
            obs = np.exp(rs.normal(0, 1, 2))
            for fn in ("dscore", "crps"):
                emit(fd, "STACK", w, fn, stack_kb, m)
                lib.hyverif_arm(0, -1)
                out = []

                def work():
                    with warnings.catch_warnings(), np.errstate(all="ignore"):
                        warnings.simplefilter("ignore")
                        try:
                            getattr(metrics, fn)(obs, ens)
                            out.append("returned")
                        except Exception as ex:
                            out.append("raise:" + type(ex).__name__)
                old = threading.stack_size(stack_kb * 1024)
                t = threading.Thread(target=work)
                t.start()
                t.join()
                threading.stack_size(old)
                emit(fd, "STACKRES", w, fn, stack_kb, m, out[0] if out else "?")
    emit(fd, "ALLOCDONE")


def main():
    args = json.loads(sys.argv[1])
    fd = os.open(args["progress"], os.O_WRONLY | os.O_CREAT | os.O_APPEND,
                 0o644)
    # kernel chatter goes nowhere
    dn = os.open(os.devnull, os.O_WRONLY)
    os.dup2(dn, 1)
    faulthandler.enable()
    if args["mode"] == "sessions":
        run_sessions(args, fd)
    elif args["mode"] == "big":
        run_big(args, fd)
    else:
        run_alloc(args, fd)
    os.close(fd)


if __name__ == "__main__":
    main()
