"""C13 - grids and catchments survive save/load, dict export, clone and clip.

Engine A on a workspace: one simulated process with a pool of live grids and
catchments and a store of saved stems.  Operations under test: save, load
(from_header by .hdr/.bil name, from_stream, from_zip), loading rasters written
by a foreign producer in either byte order, to_dict/from_dict, clone, clip,
catchment to_dict/from_dict/clone; mutations and restarts in between.  The
model of a grid is (shape, georeferencing doubles, dtype, nodata, payload
bytes); the payload of a *mutated* object is re-read from the real object
(setters are not under test), every other live object must stay equal to its
model - which is what exposes shared buffers between clones, clips and
parents.
"""
import io
import os
import warnings
import zipfile
from pathlib import Path

import numpy as np

from ..core import Violation, feq, short

RUNS = {"quick": 8000, "thorough": 200000}
SELFCHECK = {"quick": 32, "thorough": 96}
# fresh-interpreter lane of the self-check runs under python -O as well (the
# operations of this engine do not depend on an assert of the pinned code)
FRESH_OPTIMIZE = True
CHUNK = 50
LEVEL = "exploration"
RULE = ("each run = seeded history of 3-30 operations of one process over a "
        "pool of <=5 grids and <=2 catchments and a few file stems: new grid "
        "(1x1..12x12, 11 dtypes, full-range payload, cell size over 8 orders "
        "of magnitude, arbitrary finite origins, nodata representable in the "
        "type), cell mutations, save (stem collisions and overwrites by other "
        "geometry), load through four routes, foreign rasters in byte order "
        "I and M, dict round-trip, clone, clip, catchment delineation with "
        "and without inlets on the same object, catchment dict round-trip "
        "and clone, chdir, restart (objects dropped, every stem reloaded); "
        "non-trivial = >=1 persistence/copy operation compared with the "
        "model after >=1 mutation; distinct = different event-log digests")
INTERLEAVING_MEASURE = "distinct per-run operation-kind sequences"
REAL = ["hydrodiy.gis.grid.Grid / Catchment (real kernels)", "numpy raw I/O",
        "zipfile", "real files in a scratch directory under /dev/shm"]
STUB = ["operation scheduler", "byte-level grid model", "foreign raster "
        "producer (harness writes header + raw data from the model)",
        "working directory changes"]
ASSUMPTIONS = [
    "cell mutations go through Grid.__setitem__, the data setter and fill; "
    "the model of the mutated grid is re-read from it (setters are not under "
    "test), all other objects keep their models",
    "clip boxes have both corners at cell centres of the parent (well inside "
    "cells), on grids whose origin magnitude is <= 1e9 cell sizes",
    "flow-direction grids are acyclic (built from distinct elevations)",
    "grid name and comment are ignored (the reader lower-cases them)",
    "no torn header/data pair and no I/O errors are injected: save makes no "
    "atomicity claim and the property is about fault-free round-trips",
]

DTYPES = ["int8", "int16", "int32", "int64", "uint8", "uint16", "uint32",
          "uint64", "float16", "float32", "float64"]
STEMS = ["g", "data1", "Flow_dir", "x.y"]


def payload_eq(a, b, dtype):
    """Bit-identity of cell values; all NaNs are one value."""
    a = np.ascontiguousarray(a)
    b = np.ascontiguousarray(b)
    if a.shape != b.shape:
        return False
    if np.dtype(dtype).kind == "f":
        na = np.isnan(a)
        nb = np.isnan(b)
        if not np.array_equal(na, nb):
            return False
        aa = a.copy()
        bb = b.copy()
        aa[na] = 0
        bb[nb] = 0
        return aa.tobytes() == bb.tobytes()
    return a.tobytes() == b.tobytes()


class GModel:
    def __init__(self, nrows, ncols, cellsize, xll, yll, dtype, nodata, data):
        self.nrows = int(nrows)
        self.ncols = int(ncols)
        self.cellsize = float(cellsize)
        self.xll = float(xll)
        self.yll = float(yll)
        self.dtype = np.dtype(dtype).newbyteorder("=")
        self.nodata = nodata          # numpy scalar of dtype
        self.data = np.array(data, dtype=self.dtype).reshape(self.nrows,
                                                              self.ncols)

    def copy(self):
        return GModel(self.nrows, self.ncols, self.cellsize, self.xll,
                      self.yll, self.dtype, self.nodata, self.data.copy())

    def meta(self):
        return (self.nrows, self.ncols, self.cellsize, self.xll, self.yll,
                self.dtype.str, repr(self.nodata))


def check_grid(g, m, where, opkind, cells=True, nodata=True):
    def bad(inv, detail):
        raise Violation(inv, f"{where}: {detail}", opkind)
    if not isinstance(getattr(g, "data", None), np.ndarray):
        bad("grid_lost_its_data", f"data is {type(getattr(g, 'data', None))}")
    if (int(g.nrows), int(g.ncols)) != (m.nrows, m.ncols) or \
            tuple(g.data.shape) != (m.nrows, m.ncols):
        bad("shape_differs", f"({g.nrows},{g.ncols}) data {g.data.shape} != "
            f"({m.nrows},{m.ncols})")
    for nm, gv, mv in (("cellsize", g.cellsize, m.cellsize),
                       ("xllcorner", g.xllcorner, m.xll),
                       ("yllcorner", g.yllcorner, m.yll)):
        if not feq(gv, mv) and not (float(gv) == float(mv)):
            bad("georeferencing_differs", f"{nm} {float(gv)!r} != {mv!r}")
    gdt = np.dtype(g.dtype)
    if gdt.kind != m.dtype.kind or gdt.itemsize != m.dtype.itemsize:
        bad("dtype_differs", f"{gdt} != {m.dtype}")
    if np.dtype(g.data.dtype).kind != m.dtype.kind or \
            g.data.dtype.itemsize != m.dtype.itemsize:
        bad("dtype_differs", f"data array dtype {g.data.dtype} != {m.dtype}")
    if nodata:
        gn = g.nodata
        mn = m.nodata
        same = (float(gn) != float(gn) and float(mn) != float(mn)) or \
            (gn == mn and (m.dtype.kind == "f" or int(gn) == int(mn)))
        if not same:
            bad("nodata_differs", f"{gn!r} != {mn!r} (dtype {m.dtype})")
    if cells:
        real = np.asarray(g.data)
        if real.dtype.byteorder == ">":
            real = real.astype(real.dtype.newbyteorder("="))
        if not payload_eq(real, m.data, m.dtype):
            diff = []
            rf = np.ascontiguousarray(real).reshape(-1)
            mf = m.data.reshape(-1)
            for i in range(min(len(rf), len(mf))):
                if not (rf[i] == mf[i] or (rf[i] != rf[i] and mf[i] != mf[i])):
                    diff.append((i, rf[i], mf[i]))
                    if len(diff) >= 3:
                        break
            bad("cells_differ", f"dtype {m.dtype}; first differences (cell, "
                f"got, want) {diff}")


def gen_payload(cs, dtype, n, lab):
    dt = np.dtype(dtype)
    out = np.zeros(n, dtype=dt)
    if dt.kind == "f":
        fi = np.finfo(dt)
        special = [0.0, -0.0, float("nan"), float("inf"), float("-inf"),
                   float(fi.max), float(fi.min), float(fi.tiny), 1.0, -1.0]
        for i in range(n):
            if cs.flip(f"{lab}.sp{i}", 35):
                out[i] = special[cs.draw(f"{lab}.s{i}", len(special))]
            else:
                out[i] = dt.type((cs.unit(f"{lab}.u{i}") - 0.5) * 2000.0)
    else:
        ii = np.iinfo(dt)
        special = [ii.min, ii.max, ii.max - 1, ii.min + 1, 0, 1,
                   ii.max // 2 + 1]
        for i in range(n):
            if cs.flip(f"{lab}.sp{i}", 35):
                out[i] = special[cs.draw(f"{lab}.s{i}", len(special))]
            else:
                span = int(ii.max) - int(ii.min)
                out[i] = int(ii.min) + cs.draw(f"{lab}.r{i}", span + 1)
    return out


def gen_nodata(cs, dtype, lab):
    dt = np.dtype(dtype)
    if dt.kind == "f":
        opts = [0.0, -9999.0, float("nan"), -1.0, 0.5, float(np.finfo(dt).max)
                if dt.itemsize >= 4 else 60000.0, -99.25]
        return dt.type(opts[cs.draw(lab, len(opts))])
    ii = np.iinfo(dt)
    opts = [0, ii.max, ii.min, ii.max - 1 if ii.max > 1 else 0,
            -99 if ii.min < 0 else 99, 1]
    return dt.type(opts[cs.draw(lab, len(opts))])


def gen_double(cs, lab, positive=False):
    kind = cs.weighted(lab + ".k", [("plain", 5), ("frac", 4), ("big", 2),
                                    ("zero", 0 if positive else 2)])
    if kind == "zero":
        return 0.0
    e = cs.between(lab + ".e", -4, 4)
    u = cs.unit(lab + ".u")
    if kind == "plain":
        v = float(1 + cs.draw(lab + ".i", 999)) * 10.0 ** e if positive \
            else float(cs.draw(lab + ".i", 2000) - 1000)
    elif kind == "frac":
        v = (0.1 + u) * 10.0 ** e / 3.0
    else:
        v = (1.0 + u) * 10.0 ** cs.between(lab + ".be", 5, 12)
    if not positive and cs.flip(lab + ".neg", 40):
        v = -v
    if positive and v <= 0:
        v = 1.0
    return float(v)


def acyclic_flowdir(cs, nrows, ncols, lab):
    """ESRI codes from distinct pseudo-elevations: each cell drains to its
    lowest strictly lower neighbour (or 0 = sink)."""
    from hydrodiy.gis.grid import FLOWDIRCODE
    n = nrows * ncols
    elev = list(range(n))
    # seeded shuffle (Fisher-Yates with stream draws)
    for i in range(n - 1, 0, -1):
        j = cs.draw(f"{lab}.sh{i}", i + 1)
        elev[i], elev[j] = elev[j], elev[i]
    elev = np.array(elev).reshape(nrows, ncols)
    fd = np.zeros((nrows, ncols), dtype=np.int64)
    for r in range(nrows):
        for c in range(ncols):
            best = None
            for dr in (-1, 0, 1):
                for dc in (-1, 0, 1):
                    if dr == 0 and dc == 0:
                        continue
                    rr, cc = r + dr, c + dc
                    if 0 <= rr < nrows and 0 <= cc < ncols and \
                            elev[rr, cc] < elev[r, c]:
                        if best is None or elev[rr, cc] < best[0]:
                            best = (elev[rr, cc], dr, dc)
            if best is not None:
                fd[r, c] = FLOWDIRCODE[best[1] + 1, best[2] + 1]
    return fd


class World:
    def __init__(self, cs, log, ctx):
        self.cs = cs
        self.log = log
        self.ctx = ctx
        self.root = Path(os.path.realpath(str(ctx.workdir)))
        self.dirs = [self.root, self.root / "sub", self.root / "sub" / "d2"]
        for d in self.dirs:
            d.mkdir(parents=True, exist_ok=True)
        self.grids = []        # [real, model, id]
        self.cats = []         # [real, cmodel, id]
        self.store = {}        # stem path -> GModel saved there
        self.nid = 0
        self.mutated = False
        self.compared = False

    # ---- helpers -------------------------------------------------------
    def path_arg(self, p, lab):
        p = Path(p)
        if self.cs.flip(lab + ".rel", 40):
            p = Path(os.path.relpath(str(p), os.getcwd()))
        return str(p) if self.cs.flip(lab + ".str", 50) else p

    def add_grid(self, g, m):
        self.nid += 1
        self.grids.append([g, m, self.nid])
        return self.nid

    def check_all(self, opkind):
        for g, m, gid in self.grids:
            check_grid(g, m, f"grid#{gid}", opkind)
        for cat, cm, cid in self.cats:
            fd = np.asarray(cat.flowdir.data)
            if not np.array_equal(fd, cm["flowdir"]):
                raise Violation("catchment_flowdir_changed",
                                f"catchment#{cid}: flow direction cells "
                                "changed", opkind)

    def pick(self):
        return self.grids[self.cs.draw("which", len(self.grids))]

    # ---- operations ------------------------------------------------------
    def op_new(self):
        from hydrodiy.gis.grid import Grid
        cs = self.cs
        nrows = cs.weighted("nrows", [(1, 2), (2, 3), (3, 3), (5, 2), (12, 1)])
        ncols = cs.weighted("ncols", [(1, 2), (2, 3), (4, 3), (7, 2), (12, 1)])
        dtn = cs.choice("dtype", DTYPES)
        csz = gen_double(cs, "csz", positive=True)
        xll = gen_double(cs, "xll")
        yll = gen_double(cs, "yll")
        nod = gen_nodata(cs, dtn, "nodata")
        data = gen_payload(cs, dtn, nrows * ncols, "pl").reshape(nrows, ncols)
        self.log.ev("new", nrows, ncols, dtn, csz, xll, yll, repr(nod))
        style = cs.draw("callstyle", 3)
        if style == 1:
            g = Grid(name=f"grid{self.nid + 1}", nodata=nod, comment="sim",
                     dtype=getattr(np, dtn), yllcorner=yll, xllcorner=xll,
                     cellsize=csz, nrows=nrows, ncols=ncols)
        elif style == 2 and nrows == ncols:
            g = Grid(f"grid{self.nid + 1}", ncols, None, csz, xll, yll,
                     getattr(np, dtn), nod, "sim")
        else:
            g = Grid(f"grid{self.nid + 1}", ncols, nrows, cellsize=csz,
                     xllcorner=xll, yllcorner=yll, dtype=getattr(np, dtn),
                     nodata=nod, comment="sim")
        # cells enter through in-place writes on the grid's own array so that
        # the starting payload is exactly the drawn one for every dtype
        g.data[...] = data
        m = GModel(nrows, ncols, csz, xll, yll, dtn, nod, data)
        check_grid(g, m, "new grid", "new")
        self.add_grid(g, m)

    def op_mutate(self):
        cs = self.cs
        ent = self.pick()
        g, m, gid = ent
        how = cs.choice("how", ["setitem", "fill", "data_setter", "setitem"])
        n = m.nrows * m.ncols
        self.log.ev("mutate", gid, how)
        with warnings.catch_warnings(), np.errstate(all="ignore"):
            warnings.simplefilter("ignore")
            if how == "setitem":
                k = cs.between("k", 1, min(4, n))
                idx = sorted({cs.draw(f"i{j}", n) for j in range(k)})
                vals = gen_payload(cs, m.dtype, len(idx), "mv")
                g[idx] = vals
            elif how == "fill":
                g.fill(gen_payload(cs, m.dtype, 1, "fv")[0])
            else:
                vals = gen_payload(cs, m.dtype, n, "dv").reshape(m.nrows,
                                                                 m.ncols)
                buf = vals.copy()
                g.data = buf
                buf[...] = 0          # caller reuses its buffer afterwards
        # the mutated grid's model is re-read (setters are not under test)
        real = np.asarray(g.data)
        if real.shape != (m.nrows, m.ncols) or \
                np.dtype(real.dtype).itemsize != m.dtype.itemsize or \
                np.dtype(real.dtype).kind != m.dtype.kind:
            raise Violation("mutation_changed_geometry_or_type",
                            f"grid#{gid} after {how}: shape {real.shape} "
                            f"dtype {real.dtype}", "mutate")
        ent[1] = GModel(m.nrows, m.ncols, m.cellsize, m.xll, m.yll, m.dtype,
                        m.nodata, real.copy())
        self.mutated = True
        self.ctx.hit("probe.mutation")

    def op_save(self):
        cs = self.cs
        g, m, gid = self.pick()
        d = self.dirs[cs.draw("dir", len(self.dirs))]
        stem = STEMS[cs.draw("stem", len(STEMS))]
        fbil = d / (stem + ".bil")
        key = str(fbil)
        if key in self.store:
            self.ctx.hit("probe.save_over_existing_stem")
            if self.store[key].meta()[:2] != m.meta()[:2] or \
                    self.store[key].dtype != m.dtype:
                self.ctx.hit("fault.stale_sibling_other_geometry")
        self.log.ev("save", gid, str(fbil.relative_to(self.root)))
        try:
            g.save(self.path_arg(fbil, "sv"))
        except Exception as e:
            raise Violation("save_failed", f"grid#{gid} ({m.dtype}) save "
                            f"raised {e!r}", "save")
        self.store[key] = m.copy()

    def op_load_into(self):
        """Grid.load on a live grid: raw cells from a file or stream of the
        right length replace the grid's cells; a file of another length (cut
        short by a crash or a full disk, or belonging to another raster), an
        empty or a missing one is refused - and the grid is then still a grid
        of its own shape and type that saves and loads back."""
        cs = self.cs
        ent = self.pick()
        g, m, gid = ent
        n = m.nrows * m.ncols
        how = cs.choice("how", ["valid", "short", "long", "empty", "missing",
                                "valid", "short"])
        nfile = {"valid": n, "short": max(n - 1 - cs.draw("cut", 3), 0),
                 "long": n + 1 + cs.draw("more", 4), "empty": 0,
                 "missing": 0}[how]
        if how == "short" and nfile == n:
            nfile = 0
        raw = self.root / "raw_cells.bin"
        payload = gen_payload(cs, m.dtype.newbyteorder("="), max(nfile, 1),
                              "lp")[:nfile]
        if raw.exists():
            raw.unlink()
        if how != "missing":
            payload.tofile(str(raw))
        via = cs.choice("via", ["str", "path", "stream"])
        self.log.ev("load_into", gid, how, nfile, via)
        raised = None
        with warnings.catch_warnings(), np.errstate(all="ignore"):
            warnings.simplefilter("ignore")
            try:
                if via == "stream" and how != "missing":
                    with open(raw, "rb") as fd:
                        g.load(fd)
                else:
                    g.load(str(raw) if via != "path" else raw)
            except Exception as e:
                raised = repr(e)
        if how == "valid" and raised is not None:
            raise Violation("load_failed", f"grid#{gid}.load of a file with "
                            f"exactly {n} cells raised {raised}", "load_into")
        if how != "valid" and raised is None:
            raise Violation("invalid_load_accepted", f"grid#{gid}.load of a "
                            f"{how} file ({nfile} cells for {n}) did not "
                            "raise", "load_into")
        real = np.asarray(g.data)
        if real.shape != (m.nrows, m.ncols) or \
                np.dtype(real.dtype).itemsize != m.dtype.itemsize or \
                np.dtype(real.dtype).kind != m.dtype.kind:
            raise Violation("grid_damaged_by_rejected_load" if raised else
                            "load_changed_geometry_or_type",
                            f"grid#{gid} ({m.nrows}x{m.ncols} {m.dtype}) after "
                            f"load of a {how} file: shape {real.shape} dtype "
                            f"{real.dtype}", "load_into")
        if raised is not None:
            self.ctx.hit("fault.rejected_load_into_live_grid")
        else:
            self.ctx.hit("probe.load_into_live_grid")
            unbounded = not (getattr(g, "mindata", -np.inf) > -np.inf or
                             getattr(g, "maxdata", np.inf) < np.inf)
            if unbounded and real.tobytes() != payload.astype(
                    real.dtype).tobytes():
                raise Violation("cells_differ", f"grid#{gid}.load: cells are "
                                "not the file's cells", "load_into")
        ent[1] = GModel(m.nrows, m.ncols, m.cellsize, m.xll, m.yll, m.dtype,
                        m.nodata, real.copy())
        self.mutated = True

    def op_apply(self):
        """A grid made by Grid.apply with a function that rearranges the cells
        (flip, transpose or rotation of a square grid, a Fortran-ordered copy):
        its cells may sit in memory in another order than row by row; it is a
        grid like any other for save/load, clone, clip and export."""
        cs = self.cs
        g, m, gid = self.pick()
        funs = [("flipud", np.flipud), ("fliplr", np.fliplr),
                ("asfortranarray", np.asfortranarray),
                ("reversed_view", lambda x: x[::-1, ::-1])]
        if m.nrows == m.ncols:
            funs += [("transpose", np.transpose), ("rot90", np.rot90),
                     ("transpose", np.transpose)]
        name, fun = funs[cs.draw("fun", len(funs))]
        self.log.ev("apply", gid, name)
        try:
            h = g.apply(fun)
        except Exception as e:
            raise Violation("apply_failed", f"grid#{gid}.apply({name}) raised "
                            f"{e!r}", "apply")
        real = np.asarray(h.data)
        want = np.asarray(fun(m.data.reshape(m.nrows, m.ncols)))
        if real.shape != (m.nrows, m.ncols) or \
                real.astype(m.dtype).tobytes() != np.ascontiguousarray(
                    want).astype(m.dtype).tobytes():
            # Grid.apply itself is not an operation of the property: only go
            # on with grids it built as expected
            return
        if not real.flags.c_contiguous:
            self.ctx.hit("probe.grid_cells_not_in_row_major_memory_order")
        m2 = GModel(m.nrows, m.ncols, m.cellsize, m.xll, m.yll, m.dtype,
                    m.nodata, np.ascontiguousarray(real).copy())
        check_grid(h, m2, f"grid#{gid}.apply({name})", "apply")
        if len(self.grids) < 5:
            self.add_grid(h, m2)
        else:
            self.grids[cs.draw("replace", len(self.grids))] = \
                [h, m2, self.nid + 1]
            self.nid += 1

    def op_disk_fault_save(self):
        """The disk fills up (file-size limit, hysim/faults.py) during a save:
        it either raises - nothing is then concluded about that stem until it
        is saved again - or returns, and then the pair loads back.  The grid in
        memory is untouched (check_all), and the next clean save of the stem
        succeeds and loads back bit-identical."""
        import gc
        from hysim.faults import file_size_limit
        cs = self.cs
        g, m, gid = self.pick()
        d = self.dirs[cs.draw("dir", len(self.dirs))]
        stem = STEMS[cs.draw("stem", len(STEMS))]
        fbil = d / (stem + ".bil")
        key = str(fbil)
        nbytes = m.nrows * m.ncols * m.dtype.itemsize
        limit = cs.choice("limit", [0, 1, 40, 150, 260, nbytes // 2,
                                    max(nbytes - 1, 0), 400, nbytes + 1000])
        recover = cs.flip("recover", 75)
        self.log.ev("disk_fault_save", gid, str(fbil.relative_to(self.root)),
                    limit, recover)
        failed = None
        try:
            with file_size_limit(limit):
                g.save(self.path_arg(fbil, "sv"))
        except Exception as e:
            failed = repr(e)
        gc.collect()
        if failed is None:
            self.ctx.hit("probe.disk_limit_not_reached")
            self.store[key] = m.copy()
            self.load_from(key, "disk_fault_save")
            return
        self.ctx.hit("fault.disk_full_during_save")
        self.store.pop(key, None)
        if not recover:
            # the torn pair stays on disk; it is never read through the model
            return
        try:
            g.save(self.path_arg(fbil, "sv2"))
        except Exception as e:
            raise Violation("save_failed", f"grid#{gid} ({m.dtype}) save after "
                            f"an earlier save of that stem hit a full disk "
                            f"raised {e!r}", "disk_fault_save")
        self.store[key] = m.copy()
        self.ctx.hit("probe.clean_save_after_disk_fault")
        self.load_from(key, "disk_fault_save")

    def load_from(self, key, opkind):
        from hydrodiy.gis.grid import Grid
        cs = self.cs
        m = self.store[key]
        fbil = Path(key)
        fhdr = fbil.with_suffix(".hdr")
        route = cs.weighted("route", [("hdr", 4), ("bil", 3), ("stream", 3),
                                      ("zip", 4)])
        self.log.ev("load", str(fbil.relative_to(self.root)), route)
        with warnings.catch_warnings():
            warnings.simplefilter("ignore")
            try:
                if route == "hdr":
                    g = Grid.from_header(self.path_arg(fhdr, "ld"))
                elif route == "bil":
                    g = Grid.from_header(self.path_arg(fbil, "ld"))
                elif route == "stream":
                    # the header stream as the caller left it: fresh, read in
                    # part (first line sniffed), or just written (at its end)
                    pos = cs.choice("hdr_stream_at", ["start", "start",
                                                      "after_first_line",
                                                      "end"])
                    if cs.flip("memstream", 50):
                        if pos == "end":
                            sh = io.StringIO()
                            sh.write(fhdr.read_text())
                        else:
                            sh = io.StringIO(fhdr.read_text())
                            if pos == "after_first_line":
                                sh.readline()
                        with open(fbil, "rb") as fd:
                            g = Grid.from_stream(sh, fd)
                    else:
                        with open(fhdr, "r") as sh, open(fbil, "rb") as fd:
                            if pos == "after_first_line":
                                sh.readline()
                            elif pos == "end":
                                sh.read()
                            g = Grid.from_stream(sh, fd)
                else:
                    g = self.load_zip(fhdr, fbil, key)
            except Exception as e:
                raise Violation("load_failed", f"loading {fbil.name} ({m.dtype}"
                                f", {m.nrows}x{m.ncols}) via {route} raised "
                                f"{e!r}", opkind)
        check_grid(g, m, f"loaded {fbil.name} via {route}", opkind)
        self.compared = True
        self.ctx.hit("probe.load_compared")
        return g, m

    def load_zip(self, fhdr, fbil, key):
        """Pack the pair into an archive - alone, or together with other saved
        rasters whose member names end with (or contain) the requested one -
        and read the requested member back."""
        from hydrodiy.gis.grid import Grid
        cs = self.cs
        fz = fbil.parent / "pack.zip"
        inner = cs.choice("inner", ["", "dir/", "", "donn\u00e9es/"])
        want = [(fhdr, inner + fhdr.name), (fbil, inner + fbil.name)]
        # how the other tool wrote the container: every variant is a valid
        # archive holding the same bytes
        method = cs.weighted("method", [(zipfile.ZIP_STORED, 4),
                                        (zipfile.ZIP_DEFLATED, 4),
                                        (zipfile.ZIP_BZIP2, 1),
                                        (zipfile.ZIP_LZMA, 1)])
        writer = cs.weighted("writer", [("write", 5), ("writestr", 2),
                                        ("stream_zip64", 3)])
        zcomment = cs.flip("zcomment", 20)
        self.ctx.hit(f"fault.archive_written_by_{writer}_method_{method}")
        members = []
        others = [k for k in sorted(self.store) if k != key]
        if others and cs.flip("crowded", 45):
            self.ctx.hit("fault.archive_holds_other_rasters")
            for j, k in enumerate(others[:3]):
                ob = Path(k)
                oh = ob.with_suffix(".hdr")
                style = cs.choice(f"ostyle{j}", ["longer", "deeper", "own"])
                if style == "longer":
                    pre = inner + f"x{j}"
                    pair = [(oh, pre + fhdr.name), (ob, pre + fbil.name)]
                elif style == "deeper":
                    pre = f"old{j}/" + inner
                    pair = [(oh, pre + fhdr.name), (ob, pre + fbil.name)]
                else:
                    pre = f"set{j}/"
                    pair = [(oh, pre + oh.name), (ob, pre + ob.name)]
                if cs.flip(f"before{j}", 60):
                    members = pair + members
                else:
                    members = members + pair
            pos = cs.draw("pos", len(members) // 2 + 1) * 2
            members = members[:pos] + want + members[pos:]
        else:
            members = want
        with zipfile.ZipFile(str(fz), "w", compression=method) as z:
            if zcomment:
                z.comment = b"packed by another tool"
            for src, arc in members:
                if writer == "write":
                    z.write(str(src), arc)
                elif writer == "writestr":
                    z.writestr(arc, Path(src).read_bytes())
                else:
                    with z.open(arc, "w", force_zip64=True) as fo:
                        fo.write(Path(src).read_bytes())
        try:
            return Grid.from_zip(self.path_arg(fz, "lz"), inner + fhdr.name)
        finally:
            os.remove(str(fz))

    def op_load(self):
        if not self.store:
            return
        keys = sorted(self.store)
        key = keys[self.cs.draw("which", len(keys))]
        g, m = self.load_from(key, "load")
        if len(self.grids) < 5:
            self.add_grid(g, m.copy())

    def op_foreign(self):
        """Another tool wrote the raster: header + raw data in byte order I/M,
        straight from a model."""
        from hydrodiy.gis.grid import Grid
        cs = self.cs
        nrows = cs.between("nrows", 1, 6)
        ncols = cs.between("ncols", 1, 6)
        dtn = cs.choice("dtype", DTYPES)
        order = cs.choice("order", ["M", "I", "M"])
        csz = gen_double(cs, "csz", positive=True)
        xll = gen_double(cs, "xll")
        yll = gen_double(cs, "yll")
        nod = gen_nodata(cs, dtn, "nodata")
        data = gen_payload(cs, dtn, nrows * ncols, "pl").reshape(nrows, ncols)
        m = GModel(nrows, ncols, csz, xll, yll, dtn, nod, data)
        d = self.dirs[cs.draw("dir", len(self.dirs))]
        self.nid += 1
        stem = f"foreign{self.nid}"
        fbil = d / (stem + ".bil")
        fhdr = d / (stem + ".hdr")
        dt = np.dtype(dtn)
        pix = {"i": "SIGNEDINT", "u": "UNSIGNEDINT", "f": "FLOAT"}[dt.kind]
        nodtxt = repr(float(nod)) if dt.kind == "f" else str(int(nod))
        lines = [f"NROWS          {nrows}", f"NCOLS          {ncols}",
                 f"XLLCORNER      {xll!r}", f"YLLCORNER      {yll!r}",
                 f"CELLSIZE       {csz!r}", f"NBITS          {dt.itemsize * 8}",
                 f"PIXELTYPE      {pix}", f"BYTEORDER      {order}",
                 f"NODATA_VALUE   {nodtxt}", "NAME           foreign",
                 "COMMENT        written by another tool"]
        fhdr.write_text("\n".join(lines) + "\n")
        raw = data.astype(dt.newbyteorder(">" if order == "M" else "<"))
        fbil.write_bytes(raw.tobytes())
        self.log.ev("foreign", stem, dtn, order, nrows, ncols)
        self.ctx.hit("fault.foreign_byteorder_" + order)
        route = cs.weighted("froute", [("hdr", 4), ("bil", 2), ("stream", 3),
                                       ("zip", 3)])
        with warnings.catch_warnings():
            warnings.simplefilter("ignore")
            try:
                if route == "hdr":
                    g = Grid.from_header(self.path_arg(fhdr, "fh"))
                elif route == "bil":
                    g = Grid.from_header(self.path_arg(fbil, "fh"))
                elif route == "stream":
                    with open(fhdr, "r") as sh, open(fbil, "rb") as fd:
                        g = Grid.from_stream(sh, fd)
                else:
                    g = self.load_zip(fhdr, fbil, str(fbil))
            except Exception as e:
                raise Violation("load_failed", f"foreign {dtn} raster in byte "
                                f"order {order} via {route} raised {e!r}",
                                "foreign")
        exact_nodata = dt.kind == "f" or abs(int(nod)) < (1 << 53)
        check_grid(g, m, f"foreign raster {dtn} order {order} via {route}",
                   "foreign",
                   nodata=exact_nodata)
        self.compared = True
        if len(self.grids) < 5:
            self.add_grid(g, m)

    def op_dict_roundtrip(self):
        from hydrodiy.gis.grid import Grid
        g, m, gid = self.pick()
        self.log.ev("dict_roundtrip", gid)
        try:
            d = g.to_dict()
            g2 = Grid.from_dict(dict(d))
        except Exception as e:
            raise Violation("dict_roundtrip_failed", f"grid#{gid} ({m.dtype}, "
                            f"nodata {m.nodata!r}) raised {e!r}",
                            "dict_roundtrip")
        check_grid(g2, m, f"from_dict(to_dict()) of grid#{gid}",
                   "dict_roundtrip", cells=False)
        self.compared = True
        self.ctx.hit("probe.dict_roundtrip")

    def op_clone(self):
        g, m, gid = self.pick()
        self.log.ev("clone", gid)
        try:
            c = g.clone()
        except Exception as e:
            raise Violation("clone_failed", f"grid#{gid} clone raised {e!r}",
                            "clone")
        check_grid(c, m, f"clone of grid#{gid}", "clone")
        self.compared = True
        self.ctx.hit("probe.clone")
        if len(self.grids) < 5:
            self.add_grid(c, m.copy())

    def op_clone_dtype(self):
        """clone(dtype): with the grid's own dtype it is a plain clone (all
        equal); with another dtype the converted cells are re-read (conversion
        is not under test).  Either way the clone must be independent."""
        cs = self.cs
        g, m, gid = self.pick()
        same = cs.flip("same_dtype", 55)
        dtn = m.dtype.name if same else cs.choice("dtype", DTYPES)
        same = same or np.dtype(dtn) == m.dtype
        arg = getattr(np, dtn) if cs.flip("as_type", 70) or not same \
            else g.dtype
        spelled = "type"
        if same and cs.flip("other_spelling", 45):
            # the same type given as a dtype instance or a string, with or
            # without an explicit byte order (rasters of either byte order)
            nat = np.dtype(dtn)
            spelled = cs.choice("spelling", ["instance", "name", "str",
                                             "big", "little", "big_instance"])
            arg = {"instance": nat, "name": dtn, "str": nat.str,
                   "big": nat.newbyteorder(">").str,
                   "little": nat.newbyteorder("<").str,
                   "big_instance": nat.newbyteorder(">")}[spelled]
            self.ctx.hit("probe.clone_dtype_spelled_" + spelled)
        self.log.ev("clone_dtype", gid, dtn, same, spelled)
        with warnings.catch_warnings(), np.errstate(all="ignore"):
            warnings.simplefilter("ignore")
            try:
                c = g.clone(arg)
            except Exception as e:
                raise Violation("clone_failed", f"grid#{gid}.clone({dtn}) "
                                f"raised {e!r}", "clone_dtype")
        if same and spelled != "type":
            # checked here and through one save/load; it does not join the
            # pool (methods outside the property need the dtype to be a type)
            from hydrodiy.gis.grid import Grid
            what = f"clone({arg!r}) of grid#{gid}"
            check_grid(c, m, what, "clone_dtype")
            fbil = self.root / "spelled.bil"
            with warnings.catch_warnings():
                warnings.simplefilter("ignore")
                try:
                    c.save(str(fbil))
                    back = Grid.from_header(str(fbil.with_suffix(".hdr")))
                except Exception as e:
                    raise Violation("load_failed", f"save/load of {what} "
                                    f"raised {e!r}", "clone_dtype")
            check_grid(back, m, f"{what}, saved and loaded", "clone_dtype")
            self.compared = True
            return
        if same:
            check_grid(c, m, f"clone({dtn}) of grid#{gid}", "clone_dtype")
            cm = m.copy()
            self.ctx.hit("probe.clone_same_dtype")
        else:
            real = np.asarray(c.data)
            if real.shape != (m.nrows, m.ncols) or \
                    np.dtype(real.dtype) != np.dtype(dtn):
                raise Violation("clone_dtype_wrong", f"grid#{gid}.clone({dtn})"
                                f": data {real.shape} {real.dtype}",
                                "clone_dtype")
            # a converted clone keeps the no-data scalar of the old type, which
            # need not be representable in the new one: outside the property's
            # domain, so it does not join the pool
            self.ctx.hit("probe.clone_other_dtype")
            return
        self.compared = True
        if len(self.grids) < 5:
            self.add_grid(c, cm)

    def op_rejected_clone(self):
        """clone with a dtype numpy does not know is rejected; the grid it was
        asked of stays as it was (checked by check_all)."""
        g, m, gid = self.pick()
        bad = self.cs.choice("bad", ["float63", "int7", "notatype"])
        self.log.ev("rejected_clone", gid, bad)
        try:
            g.clone(bad)
        except Exception:
            self.ctx.hit("fault.rejected_clone")
            return
        raise Violation("invalid_clone_accepted", f"grid#{gid}.clone({bad!r}) "
                        "did not raise", "rejected_clone")

    def op_clip(self):
        cs = self.cs
        g, m, gid = self.pick()
        if max(abs(m.xll), abs(m.yll)) > 1e9 * m.cellsize:
            return
        c0 = cs.draw("c0", m.ncols)
        c1 = c0 + cs.draw("c1", m.ncols - c0)
        rb0 = cs.draw("r0", m.nrows)          # rows counted from the bottom
        rb1 = rb0 + cs.draw("r1", m.nrows - rb0)
        xa = m.xll + (c0 + 0.5) * m.cellsize
        xb = m.xll + (c1 + 0.5) * m.cellsize
        ya = m.yll + (rb0 + 0.5) * m.cellsize
        yb = m.yll + (rb1 + 0.5) * m.cellsize
        # the parent may carry an allowed data range that all its cells
        # satisfy (set on a clone: pool models stay as they are)
        bounded = None
        src = g
        if cs.flip("parent_has_data_range", 30):
            flat = m.data.reshape(-1)
            fin = flat[flat == flat] if m.dtype.kind == "f" else flat
            if len(fin):
                bounded = cs.choice("which_bound", ["min", "max"])
                with warnings.catch_warnings():
                    warnings.simplefilter("ignore")
                    try:
                        src = g.clone()
                        if bounded == "min":
                            src.mindata = fin.min()
                        else:
                            src.maxdata = fin.max()
                    except Exception:
                        src, bounded = g, None
                if bounded is not None and not payload_eq(
                        np.asarray(src.data), m.data, m.dtype):
                    src, bounded = g, None     # the bound itself moved cells
                if bounded is not None:
                    # cells that satisfy the range go through the data setter
                    # and through save / load of that same grid unchanged
                    how = cs.choice("bounded_path", ["setter", "load", "none"])
                    with warnings.catch_warnings():
                        warnings.simplefilter("ignore")
                        try:
                            if how == "setter":
                                src.data = m.data.copy()
                            elif how == "load":
                                fb = self.root / "bounded.bil"
                                src.save(str(fb))
                                src.load(str(fb))
                        except Exception as e:
                            raise Violation("load_failed", f"grid#{gid} with "
                                            f"{bounded}data set: {how} raised "
                                            f"{e!r}", "clip")
                    if how != "none":
                        check_grid(src, m, f"clone of grid#{gid} with "
                                   f"{bounded}data = its own {bounded}imum, "
                                   f"after {how}", "clip")
        pm = m          # model of the grid that is clipped
        if bounded is not None and cs.flip("flag_cell_outside_range", 50):
            # a cell written afterwards by item assignment (which does not
            # clip) with a value outside the declared range
            flat = m.data.reshape(-1)
            fin = flat[flat == flat] if m.dtype.kind == "f" else flat
            k = cs.draw("flag_cell", m.nrows * m.ncols)
            lim = fin.min() if bounded == "min" else fin.max()
            info = np.finfo(m.dtype) if m.dtype.kind == "f" \
                else np.iinfo(m.dtype)
            v = info.min if bounded == "min" else info.max
            if v != lim:
                try:
                    src[[k]] = np.array([v], dtype=m.dtype)
                    pm = m.copy()
                    pm.data.reshape(-1)[k] = v
                    if not payload_eq(np.asarray(src.data), pm.data, m.dtype):
                        pm, src, bounded = m, g, None   # item write clipped
                except Exception:
                    pm, src, bounded = m, g, None
        self.log.ev("clip", gid, c0, c1, rb0, rb1, bounded, pm is not m)
        if bounded:
            self.ctx.hit("probe.clip_of_parent_with_data_range")
        with warnings.catch_warnings():
            warnings.simplefilter("ignore")
            try:
                c = src.clip(xa, ya, xb, yb)
            except Exception as e:
                raise Violation("clip_failed", f"grid#{gid} clip to centres of "
                                f"cols {c0}-{c1}, rows-from-bottom {rb0}-{rb1} "
                                f"raised {e!r}", "clip")
        rt0 = m.nrows - 1 - rb1
        rt1 = m.nrows - 1 - rb0
        want = pm.data[rt0:rt1 + 1, c0:c1 + 1]
        cm = GModel(want.shape[0], want.shape[1], m.cellsize,
                    float(c.xllcorner), float(c.yllcorner), m.dtype, m.nodata,
                    want.copy())
        # coinciding centres: clip origin must put its cells on parent centres
        tol = 1e-9 * max(abs(xa), abs(ya), m.cellsize, 1e-300) + \
            1e-6 * m.cellsize
        ex = m.xll + c0 * m.cellsize
        ey = m.yll + rb0 * m.cellsize
        if abs(float(c.xllcorner) - ex) > tol or \
                abs(float(c.yllcorner) - ey) > tol:
            raise Violation("clip_georeferencing_wrong",
                            f"grid#{gid}: clip origin ({float(c.xllcorner)!r},"
                            f" {float(c.yllcorner)!r}) != ({ex!r}, {ey!r})",
                            "clip")
        check_grid(c, cm, f"clip of grid#{gid} cols {c0}-{c1} rows-from-bottom"
                   f" {rb0}-{rb1}", "clip")
        self.compared = True
        self.ctx.hit("probe.clip")
        if len(self.grids) < 5:
            self.add_grid(c, cm)

    def op_huge_clip(self):
        """A raster of more than 2^31 cells (one byte each, never touched
        except for a few cells, so it costs no memory): cell numbers beyond
        32 bits in clip, and the cloned / clipped values."""
        from hydrodiy.gis.grid import Grid
        cs = self.cs
        shape = cs.choice("shape", [(46342, 46342), (3, 2 ** 30 + 7),
                                    (2 ** 31 + 9, 1)])
        nr, nc = shape
        dtn = cs.choice("dtype", ["int8", "uint8"])
        self.log.ev("huge_clip", shape, dtn)
        self.ctx.hit("probe.grid_with_more_than_2^31_cells")
        g = Grid("huge", nc, nr, cellsize=1.0, xllcorner=0.0, yllcorner=0.0,
                 dtype=getattr(np, dtn), nodata=0)
        h = min(3, nr)
        w = min(4, nc)
        r0 = nr - h - cs.draw("up", min(3, nr - h + 1))   # rows from the top
        c0 = nc - w - cs.draw("left", min(3, nc - w + 1))
        vals = (np.arange(h * w).reshape(h, w) + 1).astype(dtn)
        g.data[r0:r0 + h, c0:c0 + w] = vals
        xa, xb = c0 + 0.5, c0 + w - 0.5
        ya, yb = (nr - 1 - (r0 + h - 1)) + 0.5, (nr - 1 - r0) + 0.5
        with warnings.catch_warnings():
            warnings.simplefilter("ignore")
            try:
                c = g.clip(xa, ya, xb, yb)
            except Exception as e:
                raise Violation("clip_failed", f"clip near the end of a "
                                f"{nr}x{nc} raster raised {e!r}", "huge_clip")
        cm = GModel(h, w, 1.0, float(c0), float(nr - 1 - (r0 + h - 1)),
                    dtn, 0, vals)
        check_grid(c, cm, f"clip near the end of a {nr}x{nc} raster",
                   "huge_clip")
        del g
        self.compared = True

    def op_zip_twice(self):
        """Another tool packs one saved pair into an archive and it is read;
        later it packs a different pair under the same archive path and member
        names: the second read must give the second grid."""
        from hydrodiy.gis.grid import Grid
        cs = self.cs
        keys = sorted(self.store)
        if len(keys) < 2:
            return
        i = cs.draw("first", len(keys))
        j = (i + 1 + cs.draw("second", len(keys) - 1)) % len(keys)
        fz = self.root / "exchange.zip"
        self.log.ev("zip_twice", keys[i].replace(str(self.root), ""),
                    keys[j].replace(str(self.root), ""))
        for key in (keys[i], keys[j]):
            fbil = Path(key)
            with zipfile.ZipFile(str(fz), "w") as z:
                z.write(str(fbil.with_suffix(".hdr")), "grid.hdr")
                z.write(str(fbil), "grid.bil")
            try:
                g = Grid.from_zip(self.path_arg(fz, "zt"), "grid.hdr")
            except Exception as e:
                raise Violation("load_failed", f"from_zip of repacked archive "
                                f"raised {e!r}", "zip_twice")
            check_grid(g, self.store[key], "grid read from an archive path "
                       "that was repacked with another raster", "zip_twice")
        self.compared = True
        self.ctx.hit("probe.archive_repacked_and_reread")

    def op_load_via_symlink(self):
        """Many rasters sharing one geometry header: the header next to the
        data is a symbolic link to a header stored elsewhere under another
        name; the data file sits beside the link."""
        from hydrodiy.gis.grid import Grid
        import shutil
        cs = self.cs
        keys = sorted(self.store)
        key = keys[cs.draw("which", len(keys))]
        m = self.store[key]
        fbil = Path(key)
        store = self.root / "geomstore"
        work = self.root / "linked"
        store.mkdir(exist_ok=True)
        work.mkdir(exist_ok=True)
        self.nid += 1
        target = store / f"geometry{self.nid}.hdr"
        shutil.copyfile(str(fbil.with_suffix(".hdr")), str(target))
        link = work / f"day{self.nid}.hdr"
        if cs.flip("relative_link", 50):
            os.symlink(os.path.relpath(str(target), str(work)), str(link))
        else:
            os.symlink(str(target), str(link))
        shutil.copyfile(str(fbil), str(link.with_suffix(".bil")))
        self.log.ev("load_via_symlink", fbil.name)
        self.ctx.hit("fault.header_is_a_symlink")
        with warnings.catch_warnings():
            warnings.simplefilter("ignore")
            try:
                g = Grid.from_header(self.path_arg(
                    link if cs.flip("byhdr", 50) else link.with_suffix(".bil"),
                    "sl"))
            except Exception as e:
                raise Violation("load_failed", f"loading through a symlinked "
                                f"header raised {e!r}", "load_via_symlink")
        check_grid(g, m, "grid loaded through a symlinked header",
                   "load_via_symlink")
        self.compared = True

    def op_widen_dtype(self):
        """The dtype setter converts the cells; the model is re-read (the
        setter is not under test) and the grid goes on through save/load."""
        cs = self.cs
        ent = self.pick()
        g, m, gid = ent
        chain = {"int8": "int16", "int16": "int32", "int32": "int64",
                 "uint8": "uint16", "uint16": "uint32", "uint32": "uint64",
                 "float16": "float32", "float32": "float64"}
        new = chain.get(m.dtype.name)
        if new is None:
            return
        self.log.ev("widen_dtype", gid, m.dtype.name, new)
        g.dtype = getattr(np, new)
        nod = np.dtype(new).type(m.nodata)
        g.nodata = nod
        real = np.asarray(g.data)
        if np.dtype(real.dtype) != np.dtype(new):
            raise Violation("dtype_setter_ignored", f"grid#{gid}: data dtype "
                            f"{real.dtype} after dtype={new}", "widen_dtype")
        ent[1] = GModel(m.nrows, m.ncols, m.cellsize, m.xll, m.yll, new, nod,
                        real.copy())
        self.mutated = True

    def op_chdir(self):
        d = self.dirs[self.cs.draw("dir", len(self.dirs))]
        os.chdir(str(d))
        self.log.ev("chdir", str(d.relative_to(self.root)) or ".")

    def op_restart(self):
        self.log.ev("restart", len(self.store))
        self.ctx.hit("fault.restart")
        self.grids = []
        self.cats = []
        os.chdir(str(self.root))
        for key in sorted(self.store):
            g, m = self.load_from(key, "restart")
            if len(self.grids) < 3:
                self.add_grid(g, m.copy())

    # ---- catchments -------------------------------------------------------
    def op_cat_new(self):
        from hydrodiy.gis.grid import Grid, Catchment
        cs = self.cs
        nrows = cs.between("nrows", 2, 7)
        ncols = cs.between("ncols", 2, 7)
        fd = acyclic_flowdir(cs, nrows, ncols, "fd")
        csz = gen_double(cs, "csz", positive=True)
        # the flow directions arrive in the type of the raster they were read
        # from (Grid's own default is float64) with its no-data value
        fdt, fnod = cs.weighted("flow_dtype", [(("int64", 0), 5),
                                               (("float64", None), 2),
                                               (("float64", -9999.0), 1),
                                               (("int32", 0), 1),
                                               (("float32", 0.0), 1),
                                               (("uint8", 255), 1)])
        kw = {} if fnod is None else {"nodata": fnod}
        if fdt == "float64" and fnod is None and cs.flip("default_dtype", 50):
            fg = Grid("flowdir", ncols, nrows, cellsize=csz,
                      xllcorner=gen_double(cs, "xll"),
                      yllcorner=gen_double(cs, "yll"))
        else:
            fg = Grid("flowdir", ncols, nrows, cellsize=csz,
                      xllcorner=gen_double(cs, "xll"),
                      yllcorner=gen_double(cs, "yll"),
                      dtype=getattr(np, fdt), **kw)
        fg.data[...] = fd
        cat = Catchment("cat", fg)
        self.nid += 1
        self.log.ev("cat_new", self.nid, nrows, ncols)
        self.cats.append([cat, {"flowdir": fd.copy(), "outlet": None,
                                "inlets": None, "area": None, "filled": None,
                                "n": nrows * ncols, "caller_grid": fg},
                          self.nid])

    def op_cat_caller_edits_grid(self):
        """The caller goes on using the grid it built the catchment from; the
        catchment holds a clone and must not notice."""
        cs = self.cs
        cat, cm, cid = self.cats[cs.draw("which", len(self.cats))]
        fg = cm.get("caller_grid")
        if fg is None:
            return
        self.log.ev("cat_caller_edits_grid", cid)
        if cs.flip("fill", 50):
            fg.fill(0)
        else:
            fg[cs.draw("cell", cm["n"])] = 0
        self.ctx.hit("fault.caller_edits_grid_given_to_catchment")

    def op_cat_delineate(self):
        cs = self.cs
        ent = self.cats[cs.draw("which", len(self.cats))]
        cat, cm, cid = ent
        n = cm["n"]
        outlet = cs.draw("outlet", n)
        with_inlets = cs.flip("inlets", 45)
        inlets = None
        if with_inlets:
            k = cs.between("ninl", 1, 3)
            inlets = sorted({cs.draw(f"in{j}", n) for j in range(k)}
                            - {outlet})
            if not inlets:
                inlets = None
        self.log.ev("cat_delineate", cid, outlet, inlets)
        try:
            if inlets is None:
                cat.delineate_area(outlet, nval=n + 5)
            else:
                arg = inlets if cs.flip("inl.list", 50) else \
                    np.array(inlets, dtype=np.int64)
                cat.delineate_area(outlet, arg, nval=n + 5)
        except Exception as e:
            raise Violation("delineate_failed", f"catchment#{cid} outlet "
                            f"{outlet} inlets {inlets} raised {e!r}",
                            "cat_delineate")
        if cm["inlets"] is not None and inlets is None:
            self.ctx.hit("probe.redelineate_without_inlets_after_inlets")
        cm["outlet"] = int(outlet)
        cm["inlets"] = None if inlets is None else [int(x) for x in inlets]
        # areas are read from the live object (delineation itself is C06);
        # what is checked here is that export/import/clone reproduce them
        cm["area"] = [int(x) for x in cat.idxcells_area]
        cm["filled"] = [int(x) for x in cat.idxcells_area_filled]
        self.mutated = True

    def check_cat(self, c2, cm, where, opkind):
        def bad(inv, detail):
            raise Violation(inv, f"{where}: {detail}", opkind)
        try:
            out = c2.idxcell_outlet
        except Exception as e:
            bad("catchment_outlet_differs", f"outlet unreadable {e!r}")
        if int(out) != cm["outlet"]:
            bad("catchment_outlet_differs", f"{out} != {cm['outlet']}")
        inl = c2.idxinlets
        got = None if inl is None else [int(x) for x in inl]
        if got != cm["inlets"]:
            bad("catchment_inlets_differ", f"{got} != {cm['inlets']}")
        try:
            a = [int(x) for x in c2.idxcells_area]
            f = [int(x) for x in c2.idxcells_area_filled]
        except Exception as e:
            bad("catchment_area_differs", f"area unreadable {e!r}")
        if a != cm["area"] or f != cm["filled"]:
            bad("catchment_area_differs", f"area {short(a)} filled {short(f)} "
                f"!= {short(cm['area'])} / {short(cm['filled'])}")

    def op_cat_dict(self):
        from hydrodiy.gis.grid import Catchment
        cs = self.cs
        cands = [e for e in self.cats if e[1]["outlet"] is not None]
        if not cands:
            return
        cat, cm, cid = cands[cs.draw("which", len(cands))]
        self.log.ev("cat_dict", cid)
        try:
            d = cat.to_dict()
        except Exception as e:
            raise Violation("catchment_to_dict_failed", f"catchment#{cid} "
                            f"raised {e!r}", "cat_dict")
        # the dictionary of a live catchment describes its latest delineation
        dinl = d.get("idxinlets")
        dinl = None if dinl is None else [int(x) for x in dinl]
        if dinl != cm["inlets"]:
            raise Violation("catchment_dict_stale_inlets",
                            f"catchment#{cid}: to_dict() exports inlets {dinl} "
                            f"but the latest delineation used {cm['inlets']}",
                            "cat_dict")
        if int(d["idxcell_outlet"]) != cm["outlet"] or \
                [int(x) for x in d["idxcells_area"]] != cm["area"]:
            raise Violation("catchment_dict_differs", f"catchment#{cid}: "
                            "to_dict() outlet/area differ from the live object",
                            "cat_dict")
        try:
            c2 = Catchment.from_dict(d)
        except Exception as e:
            raise Violation("catchment_from_dict_failed", f"catchment#{cid} "
                            f"raised {e!r}", "cat_dict")
        self.check_cat(c2, cm, f"from_dict(to_dict()) of catchment#{cid}",
                       "cat_dict")
        self.compared = True
        self.ctx.hit("probe.catchment_dict_roundtrip")
        if cm["inlets"] is not None:
            self.ctx.hit("probe.catchment_dict_roundtrip_with_inlets")

    def op_cat_clone(self):
        cs = self.cs
        cands = [e for e in self.cats if e[1]["outlet"] is not None]
        if not cands:
            return
        cat, cm, cid = cands[cs.draw("which", len(cands))]
        self.log.ev("cat_clone", cid)
        c2 = cat.clone()
        self.check_cat(c2, cm, f"clone of catchment#{cid}", "cat_clone")
        self.compared = True
        if len(self.cats) < 2:
            self.nid += 1
            self.cats.append([c2, {k: (v.copy() if hasattr(v, "copy") else v)
                                   for k, v in cm.items()
                                   if k != "caller_grid"}, self.nid])


OPS = [("new", 8, None), ("mutate", 10, "g"), ("save", 9, "g"),
       ("disk_fault_save", 3, "g"), ("load_into", 3, "g"),
       ("apply", 4, "g"),
       ("load", 9, "s"), ("foreign", 4, None), ("dict_roundtrip", 5, "g"),
       ("clone", 6, "g"), ("clone_dtype", 5, "g"), ("clip", 6, "g"),
       ("chdir", 2, None), ("cat_caller_edits_grid", 2, "c"),
       ("zip_twice", 3, "s"), ("widen_dtype", 2, "g"),
       ("rejected_clone", 2, "g"), ("load_via_symlink", 2, "s"),
       ("restart", 2, "s"), ("cat_new", 3, None), ("cat_delineate", 6, "c"),
       ("cat_dict", 5, "c"), ("cat_clone", 2, "c"), ("huge_clip", 1, None)]


def run(cs, log, ctx):
    ctx.workdir.mkdir(parents=True, exist_ok=True)
    w = World(cs, log, ctx)
    os.chdir(str(w.root))
    with cs.span("config"):
        nsteps = cs.between("nsteps", 3, 30)
        enabled = {k: not cs.flip("off." + k, 15) for k, _, _ in OPS}
        enabled["new"] = True
        log.ev("config", nsteps, sorted(k for k in enabled if enabled[k]))
    with warnings.catch_warnings():
        warnings.simplefilter("ignore")
        for step in range(nsteps):
            with cs.span("step"):
                avail = []
                for kind, wgt, needs in OPS:
                    if not enabled[kind]:
                        continue
                    if needs == "g" and not w.grids:
                        continue
                    if needs == "s" and not w.store:
                        continue
                    if needs == "c" and not w.cats:
                        continue
                    if kind == "new" and len(w.grids) >= 5:
                        continue
                    if kind == "cat_new" and len(w.cats) >= 2:
                        continue
                    avail.append((kind, wgt))
                if not avail:
                    avail = [("new", 1)]
                kind = cs.weighted("op", avail)
                log.kind(kind)
                ctx.hit("steps")
                getattr(w, "op_" + kind)()
                w.check_all(kind)
    if w.mutated and w.compared:
        ctx.hit("nontrivial")


def warmup():
    import pandas, zipfile, scipy.ndimage, scipy.interpolate  # noqa: F401,E401
    from hydrodiy.gis import grid  # noqa: F401
