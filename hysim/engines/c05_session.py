"""C05 sanitised sessions: boundary-biased pool and catalogue of the entry
points that reach compiled kernels.  Runs inside a child interpreter whose
extension modules were rebuilt with ASan/UBSan (see c05_alloc.py).  Python
exceptions are fine; a sanitizer report, an abnormal exit or an overwritten
canary is the violation.
"""
import warnings

import numpy as np

from .c18_session import Pool, Entry, Args, make_plan, SENT_F, SENT_I

LENGTHS = [0, 1, 2, 3, 5, 17, 64, 300]


def fill_values(rs, n, cls):
    if cls == "finite":
        x = np.exp(rs.normal(0, 1, n))
    elif cls == "nan_some":
        x = np.exp(rs.normal(0, 1, n))
        if n:
            x[rs.randint(0, n, size=max(1, n // 4))] = np.nan
    elif cls == "nan_all":
        x = np.full(n, np.nan)
    elif cls == "inf":
        x = rs.normal(0, 1, n)
        if n:
            x[rs.randint(0, n, size=max(1, n // 5))] = np.inf
            x[rs.randint(0, n)] = -np.inf
    elif cls == "negative":
        x = -np.exp(rs.normal(0, 1, n))
    elif cls == "huge":
        x = rs.normal(0, 1, n) * 1e300
    elif cls == "zeros":
        x = np.zeros(n)
    elif cls == "unif":
        x = np.clip(rs.uniform(0, 1, n), 1e-9, 1 - 1e-9)
    elif cls == "constant":
        x = np.full(n, 2.5)
    elif cls == "ramp":
        x = 1.5 + 0.25 * np.arange(n)
    elif cls == "ramp_tail":
        # ordinary values ending in a straight stretch (gap-filled record)
        x = np.exp(rs.normal(0, 1, n)) + 2.0
        k = min(n, 7)
        if k:
            x[n - k:] = np.linspace(3.0, 4.0, k)
    else:
        x = rs.uniform(-5, 5, n)
    return x.astype(np.float64)


VALUE_CLASSES = ["finite", "finite", "nan_some", "nan_all", "inf", "negative",
                 "huge", "zeros", "unif", "other", "constant", "ramp",
                 "ramp_tail"]


def flow_grid(cs, rs, nr, nc, lab, cyclic):
    from hydrodiy.gis.grid import Grid, FLOWDIRCODE
    from .c13_gridstore import acyclic_flowdir
    g = Grid(lab, nc, nr, cellsize=0.5, xllcorner=10.0, yllcorner=-5.0,
             dtype=np.int64, nodata=0)
    if cyclic == "acyclic":
        g.data[...] = acyclic_flowdir(cs, nr, nc, lab + ".fd")
    elif cyclic == "random":
        codes = [0, 1, 2, 4, 8, 16, 32, 64, 128]
        g.data[...] = rs.choice(codes, size=(nr, nc))
    else:      # garbage codes
        g.data[...] = rs.randint(-3, 300, size=(nr, nc))
    return g


def build_pool(cs, ctx):
    import pandas as pd
    from hydrodiy.gis.grid import Grid, Catchment
    pool = Pool(cs, ctx)
    rs = np.random.RandomState(cs.draw("content_seed", 1 << 30))
    # ---- vectors of boundary lengths x value classes (float64 contiguous:
    # other layouts are rejected by the wrappers before a kernel is reached;
    # a few float32 / int / strided ones exercise the conversion paths)
    nvec = cs.between("nvec", 10, 18)
    for j in range(nvec):
        n = LENGTHS[cs.draw(f"v{j}.n", len(LENGTHS))]
        cls = VALUE_CLASSES[cs.draw(f"v{j}.cls", len(VALUE_CLASSES))]
        x = fill_values(rs, n, cls)
        lay = cs.weighted(f"v{j}.lay", [("contig", 8), ("strided", 1),
                                        ("reversed", 1)])
        dt = cs.weighted(f"v{j}.dt", [("f8", 9), ("f4", 1), ("i8", 1)])
        if dt == "f4":
            x = x.astype(np.float32)
        elif dt == "i8":
            with np.errstate(all="ignore"):
                x = np.nan_to_num(x, posinf=9, neginf=-9).clip(-1e9, 1e9)
                x = np.round(x).astype(np.int64)
        if dt == "f8" and lay == "contig" and n > 0 and \
                cs.flip(f"v{j}.romap", 20):
            # input data mapped read-only from a file (np.load(mmap_mode="r"),
            # np.memmap(mode="r")): a kernel that works in place on what it
            # is given - legitimate on a private copy - kills the process here
            import tempfile as _tf
            import os as _os2
            fd, fn = _tf.mkstemp(prefix="hyverif-rov-", dir="/dev/shm")
            _os2.write(fd, np.ascontiguousarray(x, dtype=np.float64).tobytes())
            _os2.close(fd)
            view = np.memmap(fn, dtype=np.float64, mode="r", shape=(n,))
            _os2.unlink(fn)
            pool.add("vec", view, None,
                     f"vec[n={n},{cls},{dt},read-only memory map]",
                     {f"n{n}", cls, dt, lay, f"pairv{j}", "romap"})
            ctx.hit("probe.input_vector_mapped_read_only")
        else:
            view, guards = pool.carve(x, lay, f"v{j}")
            pool.add("vec", view, guards, f"vec[n={n},{cls},{dt},{lay}]",
                     {f"n{n}", cls, dt, lay, f"pairv{j}"})
        # a matching aggregation index for this length
        kind = cs.weighted(f"v{j}.agg", [("mono", 5), ("const", 1),
                                         ("unsorted", 1), ("negative", 1),
                                         ("huge", 1)])
        if kind == "mono":
            ai = 200101 + np.cumsum(rs.uniform(size=n) < 0.3)
        elif kind == "const":
            ai = np.full(n, 7)
        elif kind == "unsorted":
            ai = rs.randint(0, 5, n)
        elif kind == "negative":
            ai = -np.arange(n) - 1
        else:
            ai = np.full(n, 2 ** 31 - 1) - (np.arange(n)[::-1] % 2)
        pool.add("aggindex", ai.astype(np.int64), None,
                 f"aggindex[n={n},{kind}]", {f"n{n}", f"pairv{j}"})
    # ---- ensembles for several (n, m)
    for j in range(cs.between("nens", 4, 7)):
        n = [0, 1, 2, 3, 17, 64][cs.draw(f"e{j}.n", 6)]
        m = [1, 2, 3, 10, 50, 200, 1000, 0][cs.draw(f"e{j}.m", 8)]
        cls = VALUE_CLASSES[cs.draw(f"e{j}.cls", len(VALUE_CLASSES))]
        e = fill_values(rs, n * m, cls).reshape(n, m)
        if cs.flip(f"e{j}.ties", 30):
            with np.errstate(all="ignore"):
                e = np.round(e)
        view, guards = pool.carve(e, "contig_exact", f"e{j}")
        pool.add("ens", view, guards, f"ens[{n}x{m},{cls}]",
                 {f"n{n}", f"pair{j}"})
        o = fill_values(rs, n, VALUE_CLASSES[cs.draw(f"e{j}.ocls",
                                                     len(VALUE_CLASSES))])
        view, guards = pool.carve(o, "contig", f"eo{j}")
        pool.add("obs_for_ens", view, guards, f"obs[n={n}] for ens {j}",
                 {f"pair{j}"})
    # ---- AR parameters of orders 0..11
    for j in range(4):
        k = cs.between(f"p{j}.k", 0, 11)
        view, guards = pool.carve(rs.uniform(-0.5, 0.5, k), "contig", "p")
        pool.add("small", view, guards, f"arparams[{k}]")
    # ---- matrices for pareto_front
    for j in range(3):
        n = [0, 1, 2, 17][cs.draw(f"m{j}.n", 4)]
        k = cs.between(f"m{j}.k", 1, 4)
        cls = VALUE_CLASSES[cs.draw(f"m{j}.cls", len(VALUE_CLASSES))]
        view, guards = pool.carve(fill_values(rs, n * k, cls).reshape(n, k),
                                  "contig_exact", "m")
        pool.add("mat", view, guards, f"mat[{n}x{k},{cls}]")
    # ---- irregular time series incl. shorter than one period, units ns/s
    for j in range(cs.between("nirr", 3, 5)):
        n = [0, 1, 2, 5, 50][cs.draw(f"t{j}.n", 5)]
        step = cs.choice(f"t{j}.step", [[10, 60, 300], [300, 1800, 7200],
                                        [3600, 86400, 864000]])
        secs = np.cumsum(rs.choice(step, size=n)) if n else np.zeros(0)
        base = cs.choice(f"t{j}.base", ["2001-03-01 00:10:00",
                                        "2001-03-01 00:10:00",
                                        "2041-06-01 00:10:00",
                                        "1899-12-31 21:50:00"])
        t = pd.to_datetime(base) + pd.to_timedelta(secs, unit="s")
        unit = cs.choice(f"t{j}.unit", ["ns", "s", "us", "ns"])
        try:
            t = t.as_unit(unit)
        except Exception:
            pass
        if cs.flip(f"t{j}.tz", 20) and n:
            t = t.tz_localize("UTC")
        cls = VALUE_CLASSES[cs.draw(f"t{j}.cls", len(VALUE_CLASSES))]
        pool.add("irregular", pd.Series(fill_values(rs, n, cls), index=t),
                 None, f"irregular[n={n},{unit},{cls}]")
    # ---- grids: shapes down to 1x1, acyclic / random (cyclic) / garbage
    shapes = [(1, 1), (1, 3), (2, 2), (3, 1), (5, 5), (9, 7), (4, 6),
              (3, 0), (0, 2)]       # ... and grids without columns / rows
    for j in range(cs.between("ngrid", 3, 5)):
        nr, nc = shapes[cs.draw(f"g{j}.shape", len(shapes))]
        cyc = cs.weighted(f"g{j}.cyc", [("acyclic", 6), ("random", 2),
                                        ("garbage", 1)])
        g = flow_grid(cs, rs, nr, nc, f"g{j}", cyc)
        pool.add("flowdir", g, None, f"flowdir[{nr}x{nc},{cyc}]",
                 {f"s{nr}x{nc}", cyc})
        f = Grid(f"field{j}", nc, nr, cellsize=0.5, xllcorner=10.0,
                 yllcorner=-5.0, dtype=np.float64, nodata=-9999.0)
        cls = VALUE_CLASSES[cs.draw(f"g{j}.fcls", len(VALUE_CLASSES))]
        f.data[...] = fill_values(rs, nr * nc, cls).reshape(nr, nc)
        pool.add("field", f, None, f"field[{nr}x{nc},{cls}]", {f"s{nr}x{nc}"})
        # catchments from several outlets (one-cell catchments included)
        if cyc == "acyclic":
            sinks = [int(i) for i in np.where(np.asarray(g.data).reshape(-1)
                                              == 0)[0]]
            for q in range(4):
                cat = Catchment(f"cat{j}{q}", g)
                if q == 0 and sinks:
                    # a sink: usually the largest catchment of the grid
                    outlet = sinks[cs.draw(f"g{j}.sink", len(sinks))]
                else:
                    outlet = cs.draw(f"g{j}.outlet{q}", nr * nc)
                try:
                    cat.delineate_area(outlet, nval=nr * nc + 5)
                    pool.add("catch", cat, None,
                             f"catchment[{nr}x{nc},outlet {outlet},"
                             f"{len(cat.idxcells_area)} cells]",
                             {f"s{nr}x{nc}", f"pairg{j}"})
                except Exception:
                    pass
    coarse = Grid("coarse", 4, 4, cellsize=1.5, xllcorner=9.0,
                  yllcorner=-6.0, dtype=np.float64, nodata=0)
    pool.add("coarse", coarse, None, "coarse 4x4")
    coarse2 = Grid("coarse2", 8, 7, cellsize=0.8, xllcorner=9.6,
                   yllcorner=-5.4, dtype=np.float64, nodata=0)
    pool.add("coarse", coarse2, None, "coarse 7x8 (0.8)")
    coarse1 = Grid("coarse1", 1, 1, cellsize=20.0, xllcorner=0.0,
                   yllcorner=-15.0, dtype=np.float64, nodata=0)
    pool.add("coarse", coarse1, None, "coarse 1x1")
    # ---- points / polygons / answer buffers
    for j in range(3):
        P = [0, 1, 2, 10, 40][cs.draw(f"pt{j}.P", 5)]
        cls = cs.choice(f"pt{j}.cls", ["other", "nan_some", "inf", "huge"])
        view, guards = pool.carve(fill_values(rs, 2 * P, cls).reshape(P, 2),
                                  "contig_exact", "pts")
        pool.add("points", view, guards, f"points[{P},{cls}]", {f"P{P}"})
        par = np.full(P + 16, SENT_I, dtype=np.int32)
        pool.parents.append(par)
        pool.add("inside", par[8:8 + P], [par[:8], par[8 + P:]],
                 f"inside[{P}]", {f"P{P}"})
    # read-only answer buffers: a read-only memory map and an array that is
    # merely flagged read-only (the wrapper must refuse both, not write)
    import tempfile
    import os as _os
    for j, o in enumerate(list(pool.by_kind.get("points", []))):
        P = len(o.obj)
        if P == 0:
            continue
        fd, fn = tempfile.mkstemp(prefix="hyverif-ro-", dir="/dev/shm")
        _os.write(fd, np.zeros(P, dtype=np.int32).tobytes())
        _os.close(fd)
        ro = np.memmap(fn, dtype=np.int32, mode="r", shape=(P,))
        _os.unlink(fn)
        pool.add("inside", ro, None, f"inside[{P}] read-only memmap",
                 {f"P{P}", "readonly"})
        flagged = np.zeros(P, dtype=np.int32)
        flagged.flags.writeable = False
        pool.add("inside", flagged, None, f"inside[{P}] flagged read-only",
                 {f"P{P}", "readonly"})
    for j in range(3):
        k = [0, 1, 2, 3, 8][cs.draw(f"pg{j}.k", 5)]
        ang = np.sort(rs.uniform(0, 2 * np.pi, k))
        poly = np.column_stack([2 * np.cos(ang), 2 * np.sin(ang)]) if k \
            else np.zeros((0, 2))
        view, guards = pool.carve(poly, "contig_exact", "poly")
        pool.add("polygon", view, guards, f"polygon[{k}]")
    for j in range(2):
        k = [0, 1, 3, 12][cs.draw(f"gx{j}.k", 4)]
        gxy = np.column_stack([10.0 + rs.uniform(-1, 5, k),
                               -5.0 + rs.uniform(-1, 5, k)])
        view, guards = pool.carve(gxy, "contig_exact", "gxy")
        pool.add("gridxy", view, guards, f"gridxy[{k}]")
    # points exactly on, and one ulp inside/outside, the edges and corners of
    # every grid extent of the pool (all grids share xll=10, yll=-5, csz=0.5)
    edge = []
    for g in pool.by_kind.get("field", []):
        x0, y0, c = 10.0, -5.0, 0.5
        xs = [x0, x0 + c * int(g.obj.ncols), x0 + c * (int(g.obj.ncols) - 1)]
        ys = [y0, y0 + c * int(g.obj.nrows), y0 + 0.25 * c]
        for x in xs:
            for y in ys:
                for dx in (0.0, 1.0, -1.0):
                    xx = x if dx == 0 else np.nextafter(x, x + dx)
                    edge.append([xx, y])
                    edge.append([x, y if dx == 0 else np.nextafter(y, y + dx)])
    if edge:
        e = np.array(edge, dtype=np.float64)
        view, guards = pool.carve(e, "contig_exact", "gxyedge")
        pool.add("gridxy", view, guards, f"gridxy[{len(e)} edge/corner points]")
        nan_e = e[: min(6, len(e))].copy()
        nan_e[::2, 0] = np.nan
        view, guards = pool.carve(nan_e, "contig_exact", "gxynan")
        pool.add("gridxy", view, guards, "gridxy[edge points with NaN]")
    # coordinates far outside any grid, infinite or missing, in x and in y
    wild = np.array([[10.2, -4.8], [10.2, np.nan], [10.2, np.inf],
                     [10.2, -np.inf], [10.2, 1e300], [10.2, -1e300],
                     [np.inf, -4.8], [-1e300, -4.8], [np.nan, np.nan],
                     [1e19, -1e19], [-1e19, 1e19], [10.2, 9.3e18]])
    wsel = [i for i in range(len(wild)) if cs.flip(f"wild{i}", 60)] or [1]
    view, guards = pool.carve(wild[wsel], "contig_exact", "gxywild")
    pool.add("gridxy", view, guards,
             f"gridxy[{len(wsel)} far / infinite / missing coordinates]")
    view, guards = pool.carve(wild[wsel], "contig_exact", "ptswild")
    pool.add("points", view, guards,
             f"points[{len(wsel)} far / infinite / missing]",
             {f"P{len(wsel)}"})
    # coordinate / polygon arrays of other shapes than [n,2]: one column, three
    # columns, a flat vector (the wrappers must refuse or cope, not over-read)
    for kind, lab in (("gridxy", "gw"), ("polygon", "pw"), ("points", "qw")):
        shape = cs.choice(f"{lab}.shape", [(5, 1), (4, 3), (1, 1), (6,),
                                           (2, 1), (3, 1)])
        arr = 10.0 + rs.uniform(0, 2, shape)
        if len(shape) == 1:
            view, guards = pool.carve(arr, "contig", lab)
        else:
            view, guards = pool.carve(arr, "contig_exact", lab)
        tags = {f"P{shape[0]}"} if kind == "points" else set()
        pool.add(kind, view, guards, f"{kind}[shape {shape}]", tags)
    return pool


KNOWN_HITS = []      # known-finding signatures met during the current call
_RO_CACHE = {}


def catalogue():
    import os
    from hydrodiy.stat import metrics, sutils, armodels
    from hydrodiy.data import dutils, qualitycontrol, signatures
    from hydrodiy.gis import grid as hgrid, gutils
    import c_hydrodiy_data as chd

    E = []

    def add(name, needs, fn, opts=None, **kw):
        E.append(Entry(name, needs, fn, opts, **kw))

    V = ("x", "vec", None)
    AI = ("ai", "aggindex", {"@pair:x"})

    def cell(cs, lab):
        """cell numbers at and beyond the grid: -1, 0, small, large."""
        return cs.choice(lab, [0, 1, -1, 3, 8, 24, 62, 63, 1000, -5,
                               # valid cell numbers plus multiples of 2^32
                               2 ** 32, 2 ** 32 + 3, -2 ** 32 + 2,
                               2 ** 40 + 1])

    add("dutils.aggregate", [V, AI],
        lambda a, o: dutils.aggregate(a.ai, a.x, operator=o["op"],
                                      maxnan=o["mn"]),
        lambda cs: {"op": cs.choice("op", [0, 1, 2, 3, 4, -1]),
                    "mn": cs.choice("mn", [0, 1, -1, 1000])}, weight=6)
    add("dutils.flathomogen", [V, AI],
        lambda a, o: dutils.flathomogen(a.ai, a.x, maxnan=o["mn"]),
        lambda cs: {"mn": cs.choice("mn", [0, 2, -1])}, weight=6)
    add("qualitycontrol.islinear", [V],
        lambda a, o: qualitycontrol.islinear(a.x, npoints=o["np"],
                                             tol=o["tol"], thresh=o["th"]),
        lambda cs: {"np": cs.choice("np", [3, 1, 0, -1, 2, 50, 1000]),
                    "tol": cs.choice("tol", [1e-6, 0.0, -1.0]),
                    "th": cs.choice("th", [0.0, 1.0])}, weight=6)
    add("dutils.var2h", [("s", "irregular", None)],
        lambda a, o: dutils.var2h(a.s, nbsec_per_period=o["p"],
                                  maxgapsec=o["gap"], rainfall=o["r"],
                                  display=o["d"]),
        lambda cs: {"p": cs.choice("p", [3600, 1800]),
                    "gap": cs.choice("gap", [432000, 3600, 7200]),
                    "r": cs.flip("r", 40),
                    "d": cs.flip("d", 40)}, weight=6)
    add("signatures.eckhardt", [V],
        lambda a, o: signatures.eckhardt(a.x, thresh=o["th"], tau=o["tau"],
                                         BFI_max=o["b"],
                                         timestep_type=o["tt"]),
        lambda cs: {"th": cs.choice("th", [0.95, 0.0, 1.0]),
                    "tau": cs.choice("tau", [20, 0, 1, -3]),
                    "b": cs.choice("b", [0.8, 0.0, 1.0]),
                    "tt": cs.choice("tt", [1, 0, 2])}, weight=5)
    add("signatures.goue", [V, AI], lambda a, o: signatures.goue(a.ai, a.x))
    add("signatures.fdcslope", [V], lambda a, o: signatures.fdcslope(
        a.x, q1=o["q1"], q2=o["q2"]),
        lambda cs: {"q1": cs.choice("q1", [90, 0, 50]),
                    "q2": cs.choice("q2", [100, 95, 50])})
    add("metrics.crps", [("ens", "ens", None), ("obs", "obs_for_ens", {"@pair:ens"})],
        lambda a, o: metrics.crps(a.obs, a.ens), weight=8)
    add("metrics.crps(any obs)", [V, ("ens", "ens", None)],
        lambda a, o: metrics.crps(a.x, a.ens), weight=3)
    add("metrics.dscore", [("ens", "ens", None),
                           ("obs", "obs_for_ens", {"@pair:ens"})],
        lambda a, o: metrics.dscore(a.obs, a.ens, eps=o["eps"]),
        lambda cs: {"eps": cs.choice("eps", [1e-6, 0.0, 1.0])}, weight=6)
    add("metrics.alpha/pit", [("ens", "ens", None),
                              ("obs", "obs_for_ens", {"@pair:ens"})],
        lambda a, o: (metrics.alpha(a.obs, a.ens, type=o["t"]),
                      metrics.pit(a.obs, a.ens)),
        lambda cs: {"t": cs.choice("t", ["CV", "KS", "AD"])}, weight=3)
    add("metrics.anderson_darling_test", [V],
        lambda a, o: metrics.anderson_darling_test(a.x), weight=5)
    add("armodels.armodel_sim", [("p", "small", None), V],
        lambda a, o: armodels.armodel_sim(a.p, a.x, sim_mean=o["m"],
                                          sim_ini=o["ini"]),
        lambda cs: {"m": cs.choice("m", [0.0, 1e300]),
                    "ini": cs.choice("ini", [None, 0.3, float("nan")])},
        weight=5)
    add("armodels.armodel_residual", [("p", "small", None), V],
        lambda a, o: armodels.armodel_residual(a.p, a.x, sim_mean=o["m"],
                                               sim_ini=o["ini"]),
        lambda cs: {"m": cs.choice("m", [None, 0.0]),
                    "ini": cs.choice("ini", [None, 0.3])}, weight=5)
    add("sutils.pareto_front", [("m", "mat", None)],
        lambda a, o: sutils.pareto_front(a.m, orientation=o["or"]),
        lambda cs: {"or": cs.choice("or", [1, -1, 0])}, weight=5)
    add("sutils.acf", [V], lambda a, o: sutils.acf(a.x, maxlag=o["l"]),
        lambda cs: {"l": cs.choice("l", [1, 0, 5, 400])})
    # ---- grids
    G = ("g", "field", None)
    FD = ("fd", "flowdir", None)
    CA = ("c", "catch", None)
    add("Grid.coord2cell", [G, ("xy", "gridxy", None)],
        lambda a, o: a.g.coord2cell(a.xy), weight=4)
    add("Grid.cell2coord/rowcol", [G],
        lambda a, o: (a.g.cell2coord(o["cells"]),
                      a.g.cell2rowcol(o["cells"])),
        lambda cs: {"cells": [cell(cs, "c0"), cell(cs, "c1")]}, weight=4)
    add("Grid.neighbours", [G], lambda a, o: a.g.neighbours(o["c"]),
        lambda cs: {"c": cell(cs, "c")}, weight=4)
    add("Grid.slice", [G, ("xy", "gridxy", None)],
        lambda a, o: a.g.slice(a.xy), weight=4)
    add("Grid.clip", [G],
        lambda a, o: a.g.clip(10.0 + o["x0"], -5.0 + o["y0"],
                              10.0 + o["x1"], -5.0 + o["y1"]),
        lambda cs: {"x0": cs.choice("x0", [0.1, -3.0, 0.0]),
                    "y0": cs.choice("y0", [0.1, -3.0, 0.0]),
                    "x1": cs.choice("x1", [0.3, 1.3, 30.0]),
                    "y1": cs.choice("y1", [0.3, 1.3, 30.0])}, weight=3)
    add("Grid.cells_inside_polygon", [G, ("p", "polygon", None)],
        lambda a, o: a.g.cells_inside_polygon(a.p), weight=3)
    add("Catchment.upstream/downstream", [CA],
        lambda a, o: (a.c.upstream(o["cells"]), a.c.downstream(o["cells"])),
        lambda cs: {"cells": [cell(cs, "c0"), cell(cs, "c1")]}, weight=4)

    def delineate(a, o):
        c = hgrid.Catchment("tmp", a.fd)
        inl = o["inlets"]
        c.delineate_area(o["outlet"], inl, nval=o["nval"])
        out = [c.idxcells_area]
        c.delineate_boundary()
        c.compute_flowpathlengths()
        return out
    add("Catchment(new).delineate_area+boundary+flowpaths", [FD], delineate,
        lambda cs: {"outlet": cell(cs, "outlet"),
                    "inlets": cs.choice("inl", [None, None, [0], [1, 2],
                                                [-1], [1000]]),
                    "nval": cs.choice("nval", [200, 1, 2, 3, 10])}, weight=8)
    add("Catchment.delineate_boundary", [CA],
        lambda a, o: (a.c.delineate_boundary(), a.c.idxcells_boundary)[1],
        weight=4)
    add("Catchment.compute_flowpathlengths", [CA],
        lambda a, o: (a.c.compute_flowpathlengths(), a.c.flowpathlengths)[1],
        weight=4)
    add("Catchment.intersect", [CA, ("g", "coarse", None)],
        lambda a, o: a.c.intersect(a.g, filled=o["f"]),
        lambda cs: {"f": cs.flip("f", 50)}, weight=4)
    add("Catchment.intersect(field)", [CA, G],
        lambda a, o: a.c.intersect(a.g, filled=o["f"]),
        lambda cs: {"f": cs.flip("f", 50)}, weight=2)

    def combine(a, o):
        c = (a.c + a.d) if o["op"] == "+" else (a.c - a.d)
        out = [c.idxcells_area]
        out.append(c.intersect(a.g, filled=o["f"]))
        return out
    add("Catchment.__add__/__sub__ then intersect",
        [CA, ("d", "catch", {"@pair:c"}), ("g", "coarse", None)], combine,
        lambda cs: {"op": cs.choice("op", ["+", "-"]),
                    "f": cs.flip("f", 40)}, weight=8)
    def add_then_boundary(a, o):
        c = (a.c + a.d) if o["op"] == "+" else (a.c - a.d)
        c.delineate_boundary()
        return [c.idxcells_boundary, c.extent()]
    add("Catchment.__add__/__sub__ then delineate_boundary (same grid)",
        [CA, ("d", "catch", {"@pair:c"})], add_then_boundary,
        lambda cs: {"op": cs.choice("op", ["+", "-"])}, weight=4)
    add("Catchment.__add__/__sub__ then delineate_boundary (any grids)",
        [CA, ("d", "catch", None)], add_then_boundary,
        lambda cs: {"op": cs.choice("op", ["+", "-"])}, weight=4)

    def redelineate_then_intersect(a, o):
        """One catchment object re-used: small area, intersect, larger area,
        intersect again on a grid of the same geometry."""
        n = int(a.fd.nrows * a.fd.ncols)
        c = hgrid.Catchment("reuse", a.fd)
        out = []
        for outlet in o["outlets"]:
            c.delineate_area(outlet % n, nval=n + 5)
            out.append(c.intersect(a.g, filled=o["f"]))
            if o["boundary"]:
                c.delineate_boundary()
        return out
    add("Catchment re-delineated then intersect again",
        [FD, ("g", "coarse", None)], redelineate_then_intersect,
        lambda cs: {"outlets": [cs.draw(f"o{i}", 63) for i in range(4)],
                    "f": cs.flip("f", 40),
                    "boundary": cs.flip("boundary", 40)}, weight=6)
    def from_dict_foreign_cells(a, o):
        """A catchment description whose cell lists do not fit its grid (made
        for a larger grid, or edited by hand), then the usual methods."""
        n = int(a.fd.nrows * a.fd.ncols)
        if o.get("negative") == "int64_edge":
            # cell numbers next to the ends of the 64-bit range
            cells = np.array([(-2 ** 63 + abs(c)) if i % 2 == 0
                              else (2 ** 63 - 1 - abs(c))
                              for i, c in enumerate(o["cells"])],
                             dtype=np.int64)
        elif o.get("negative") == "wrap32":
            # in-grid numbers shifted by a multiple of 2^32
            cells = np.array([abs(c) + 2 ** 32 for c in o["cells"]],
                             dtype=np.int64)
        elif o.get("negative"):
            # negative cell numbers as they are (-1, -2, -7)
            cells = np.array(o["cells"], dtype=np.int64)
        else:
            cells = np.array([c if c >= 0 else n + (-c) * o["far"]
                              for c in o["cells"]], dtype=np.int64)
        # the description holds lists (what to_dict gives), the caller's own
        # int64 arrays, or arrays mapped read-only from a file
        form = o.get("form", "list")
        area, filled = cells.tolist(), cells.tolist()
        if form == "array":
            area, filled = cells.copy(), cells.copy()
        elif form == "readonly_map":
            import tempfile
            maps = []
            for _ in range(2):
                fd, fn = tempfile.mkstemp(prefix="hyverif-cells-",
                                          dir="/dev/shm")
                os.write(fd, cells.tobytes())
                os.close(fd)
                maps.append(np.memmap(fn, dtype=np.int64, mode="r",
                                      shape=cells.shape))
                os.unlink(fn)
            area, filled = maps
        dic = {"name": "foreign", "idxcell_outlet": int(cells[0]),
               "idxinlets": None, "idxcells_area": area,
               "idxcells_area_filled": filled,
               "flowdir": a.fd.to_dict()}
        c = hgrid.Catchment.from_dict(dic)
        out = []
        for step in o["then"]:
            if step == "boundary":
                if o.get("own_mask"):
                    c.delineate_boundary(catchment_area_mask=np.ones(
                        max(n, 0), dtype=np.int64))
                else:
                    c.delineate_boundary()
            elif step == "extent":
                out.append(c.extent())
            elif step == "flowpaths":
                c.compute_flowpathlengths()
            elif step == "intersect":
                out.append(c.intersect(a.g))
            elif step == "voronoi":
                out.append(hgrid.voronoi(c, np.array([[10.2, -4.8],
                                                      [11.0, -4.0]])))
        return out
    add("Catchment.from_dict(cells not fitting the grid) then methods",
        [FD, ("g", "coarse", None)], from_dict_foreign_cells,
        lambda cs: {"cells": [cs.choice(f"c{i}", [0, 1, 2, 5, -1, -2, -7, 3])
                              for i in range(cs.between("nc", 2, 6))],
                    "far": cs.choice("far", [1, 3, 1000, 2 ** 33]),
                    "own_mask": cs.flip("own_mask", 35),
                    "form": cs.weighted("form", [("list", 5), ("array", 2),
                                                 ("readonly_map", 2)]),
                    "negative": cs.weighted("negative", [(False, 6), (True, 3),
                                                         ("wrap32", 2),
                                                         ("int64_edge", 2)]),
                    "then": [cs.choice(f"t{i}", ["boundary", "extent",
                                                 "flowpaths", "intersect",
                                                 "voronoi"])
                             for i in range(2)]}, weight=5)
    def from_dict_own_arrays(a, o):
        """A valid catchment described by the caller's own cell arrays (in the
        order a tool wrote them, not sorted), possibly mapped read-only from a
        file; then the boundary (whose kernel sorts its cell list)."""
        import tempfile
        cells = np.asarray(a.c._idxcells_area, dtype=np.int64)[::-1].copy()
        filled = np.asarray(a.c._idxcells_area_filled,
                            dtype=np.int64)[::-1].copy()
        if o["form"] == "readonly_map":
            maps = []
            for arr in (cells, filled):
                fd, fn = tempfile.mkstemp(prefix="hyverif-cells-",
                                          dir="/dev/shm")
                os.write(fd, arr.tobytes())
                os.close(fd)
                maps.append(np.memmap(fn, dtype=np.int64, mode="r",
                                      shape=arr.shape) if len(arr) else arr)
                os.unlink(fn)
            cells, filled = maps
        dic = {"name": "mine", "idxcell_outlet": int(a.c._idxcell_outlet),
               "idxinlets": None, "idxcells_area": cells,
               "idxcells_area_filled": filled,
               "flowdir": a.c._flowdir.to_dict()}
        c = hgrid.Catchment.from_dict(dic)
        c.delineate_boundary()
        c.compute_flowpathlengths()
        return [c.idxcells_boundary, np.asarray(cells).tolist()]
    add("Catchment.from_dict(own cell arrays) then boundary", [CA],
        from_dict_own_arrays,
        lambda cs: {"form": cs.choice("form", ["array", "readonly_map"])},
        weight=4)

    def small_plus_large(a, o):
        """Boundary of the smaller catchment first, then the sum of the two
        (smaller + larger, any grids), its boundary, extent and intersection."""
        c1, c2 = a.c, a.d
        if len(c1._idxcells_area) > len(c2._idxcells_area):
            c1, c2 = c2, c1
        out = []
        try:
            c1.delineate_boundary()
        except Exception:
            pass
        c = c1 + c2
        for step in o["then"]:
            try:
                if step == "boundary":
                    c.delineate_boundary()
                elif step == "intersect":
                    out.append(c.intersect(a.g, filled=o["f"]))
                elif step == "extent":
                    out.append(c.extent())
            except Exception:
                pass
        return out
    add("smaller + larger catchment, then boundary/intersect (any grids)",
        [CA, ("d", "catch", None), ("g", "coarse", None)], small_plus_large,
        lambda cs: {"then": [cs.choice(f"t{i}", ["boundary", "intersect",
                                                 "extent"]) for i in range(3)],
                    "f": cs.flip("f", 30)}, weight=5)
    add("smaller + larger catchment, then boundary/intersect (one grid)",
        [CA, ("d", "catch", {"@pair:c"}), ("g", "coarse", None)],
        small_plus_large,
        lambda cs: {"then": [cs.choice(f"t{i}", ["boundary", "intersect",
                                                 "extent"]) for i in range(3)],
                    "f": cs.flip("f", 30)}, weight=5)
    add("Catchment.extent/isin", [CA],
        lambda a, o: (a.c.extent(), a.c.isin(o["c"])),
        lambda cs: {"c": cell(cs, "c")}, weight=2)
    add("grid.accumulate", [FD],
        lambda a, o: hgrid.accumulate(a.fd, nprint=o["np"],
                                      max_accumulated_cells=o["mx"]),
        lambda cs: {"np": cs.choice("np", [100, 1, 0, -1]),
                    "mx": cs.choice("mx", [-1, 0, 1, 3, 10 ** 6])}, weight=6)
    add("grid.accumulate(field)", [FD, ("f", "field", None)],
        lambda a, o: hgrid.accumulate(a.fd, a.f, nprint=o["np"]),
        lambda cs: {"np": cs.choice("np", [100, 1])}, weight=4)
    add("grid.slope", [FD, ("f", "field", None)],
        lambda a, o: hgrid.slope(a.fd, a.f, nprint=o["np"]),
        lambda cs: {"np": cs.choice("np", [100, 1, 0])}, weight=5)
    add("grid.voronoi", [CA, ("xy", "gridxy", None)],
        lambda a, o: hgrid.voronoi(a.c, a.xy), weight=6)
    add("grid.delineate_river", [FD],
        lambda a, o: hgrid.delineate_river(a.fd, o["c"], nval=o["nval"]),
        lambda cs: {"c": cell(cs, "c"),
                    "nval": cs.choice("nval", [200, 1, 2, 0, 5])}, weight=6)
    add("gutils.points_inside_polygon",
        [("pts", "points", None), ("poly", "polygon", None)],
        lambda a, o: gutils.points_inside_polygon(a.pts, a.poly,
                                                  atol=o["atol"]),
        lambda cs: {"atol": cs.choice("atol", [1e-8, 0.0, -1.0])}, weight=5)
    add("gutils.points_inside_polygon(inside=)",
        [("pts", "points", None), ("poly", "polygon", None),
         ("inside", "inside", None)],
        lambda a, o: np.array(gutils.points_inside_polygon(
            a.pts, a.poly, inside=a.inside), copy=True), outs=("inside",),
        weight=5)

    # ---- c-module date helpers
    def dates_readonly(o):
        """The date helpers write their answer into the array they are given:
        a read-only one must be refused, not written (known finding
        C05/date_helpers_write_readonly_buffer: the Cython wrappers do not ask
        for a writable buffer; recorded, not an alarm)."""
        base = np.array(o["d"], dtype=np.int32)
        if o["ro"] == "flag":
            d_ro = base.copy()
            d_ro.flags.writeable = False
            for f in (chd.add1month, chd.add1day,
                      lambda d: chd.getdate(20010315.0, d)):
                before = d_ro.copy()
                try:
                    f(d_ro)
                except Exception:
                    continue           # refused: what should happen
                if not np.array_equal(d_ro, before):
                    KNOWN_HITS.append("C05/date_helpers_write_readonly_buffer")
                    return
        else:
            # a read-only memory map: writing into it kills the process, so
            # the call is made in a fresh interpreter (once per process: the
            # outcome does not depend on the drawn date)
            if "memmap" not in _RO_CACHE:
                import subprocess
                import sys
                import tempfile
                fd, fn = tempfile.mkstemp(prefix="hyverif-rodate-",
                                          dir="/dev/shm")
                os.write(fd, np.array([2001, 3, 15], dtype=np.int32).tobytes())
                os.close(fd)
                script = (
                    "import sys, numpy as np\n"
                    f"sys.path[:0] = {[p for p in sys.path if p]!r}\n"
                    "import c_hydrodiy_data as chd\n"
                    f"mm = np.memmap({fn!r}, dtype=np.int32, mode='r', "
                    "shape=(3,))\n"
                    "try:\n    chd.add1day(mm)\nexcept Exception:\n"
                    "    sys.exit(0)\n"
                    "sys.exit(0 if list(mm) == [2001, 3, 15] else 7)\n")
                try:
                    r = subprocess.run([sys.executable, "-c", script],
                                       stdin=subprocess.DEVNULL,
                                       stdout=subprocess.DEVNULL,
                                       stderr=subprocess.DEVNULL, timeout=120)
                    _RO_CACHE["memmap"] = r.returncode < 0 or \
                        r.returncode == 7
                except subprocess.TimeoutExpired:
                    _RO_CACHE["memmap"] = False
                os.unlink(fn)
            if _RO_CACHE["memmap"]:
                KNOWN_HITS.append("C05/date_helpers_write_readonly_buffer")

    def dates(a, o):
        if o.get("ro"):
            dates_readonly(o)
        d = np.array(o["d"], dtype=np.int32)
        d2 = np.array(o["d2"], dtype=np.int32)
        out = [chd.isleapyear(o["d"][0]), chd.daysinmonth(o["d"][0],
                                                          o["d"][1]),
               chd.dayofyear(o["d"][1], o["d"][2])]
        out.append(chd.add1month(d.copy()))
        out.append(chd.add1day(d.copy()))
        out.append(chd.comparedates(d, d2))
        out.append(chd.getdate(o["day"], d2.copy()))
        return out
    add("c_hydrodiy_data date helpers", [], dates,
        lambda cs: {"d": [cs.choice("y", [2000, 1900, 0, -400, 9999, 100000,
                                          2 ** 31 - 1, -2 ** 31, 214748]),
                          cs.choice("m", [1, 2, 12, 0, 13, -1, 99]),
                          cs.choice("dd", [1, 28, 29, 31, 0, 32, -1])],
                    "d2": [cs.choice("y2", [2000, 2001]),
                           cs.choice("m2", [1, 12]), cs.choice("d2", [1, 31])],
                    "ro": cs.weighted("ro", [(None, 7), ("flag", 2),
                                             ("memmap", 1)]),
                    "day": cs.choice("day", [20010315.0, 0.0, -1.0,
                                             20011340.0, 99999999.0,
                                             23622320101.0, 1e300, -1e300,
                                             float("nan"), float("inf")])},
        weight=4)
    add("c_hydrodiy_data.combi", [],
        lambda a, o: chd.combi(o["n"], o["k"]),
        lambda cs: {"n": cs.choice("n", [5, 0, 1, 30, 60, -1, 2 ** 31 - 1,
                                         -2 ** 31]),
                    "k": cs.choice("k", [2, 0, 1, 15, 30, 61, -1, 2 ** 31 - 1,
                                         -2 ** 31])}, weight=2)
    return E


# ---------------------------------------------------------------------------
# "random larger ones": lengths and cell counts straddling the places where
# products of sizes leave 32-bit range (n*n at 46341 and 65536, n*m at a few
# hundred thousand), one call per workload because some kernels are O(n^2).
# ---------------------------------------------------------------------------
BIG_N = [46341, 46350, 65536, 65537, 92682]


def big_catalogue():
    import pandas as pd
    from hydrodiy.stat import metrics, sutils, armodels
    from hydrodiy.data import dutils, qualitycontrol, signatures
    from hydrodiy.gis import grid as hgrid, gutils
    from hydrodiy.gis.grid import Grid, Catchment

    E = []

    def add(name, fn, weight=1):
        E.extend([(name, fn)] * weight)

    def ens(rs, n, m):
        return np.exp(rs.normal(0, 1, (n, m)))

    add("metrics.crps", lambda rs, n: metrics.crps(
        np.exp(rs.normal(0, 1, n)), ens(rs, n, int(rs.choice([1, 3])))), 3)
    add("sutils.pareto_front", lambda rs, n: sutils.pareto_front(
        rs.uniform(0, 1, (n, 2)), orientation=int(rs.choice([1, -1]))), 2)
    add("dutils.aggregate", lambda rs, n: dutils.aggregate(
        (np.arange(n) // int(rs.choice([1, 7, 40000]))).astype(np.int32),
        rs.uniform(0, 1, n), operator=int(rs.choice([0, 1])), maxnan=0))
    add("dutils.flathomogen", lambda rs, n: dutils.flathomogen(
        (np.arange(n) // int(rs.choice([1, 7, 40000]))).astype(np.int32),
        rs.uniform(0, 1, n), maxnan=1))
    add("qualitycontrol.islinear", lambda rs, n: qualitycontrol.islinear(
        np.round(rs.uniform(0, 3, n)), npoints=int(rs.choice([1, 3, 50000]))))
    add("signatures.eckhardt", lambda rs, n: signatures.eckhardt(
        rs.uniform(0, 1, n)))
    add("armodels.sim+residual", lambda rs, n: (
        armodels.armodel_sim(np.array([0.5, 0.2]), rs.normal(0, 1, n)),
        armodels.armodel_residual(np.array([0.5, 0.2]),
                                  rs.normal(0, 1, n))))
    def adtest(rs, n):
        # every branch of the finite-sample correction: a sample that is too
        # regular (statistic near 0), an ordinary one, one that is not uniform
        out = []
        for u in ((np.arange(n) + 0.5) / n, rs.uniform(0, 1, n),
                  rs.uniform(0, 1, n) ** 1.05):
            out.append(metrics.anderson_darling_test(u))
        return out
    add("metrics.anderson_darling_test", adtest)
    add("sutils.acf", lambda rs, n: sutils.acf(rs.normal(0, 1, n), maxlag=5))

    def var2h(rs, n):
        out = []
        # a dense record, then sparse ones spanning about a century (more
        # hourly periods than 2^31 seconds) and reaching beyond 2038
        for base, steps, m in (("2001-03-01 00:10:00", [60, 300, 1800, 7200],
                                n),
                               ("1900-01-01 00:10:00",
                                [86400 * 365, 86400 * 4000], 12),
                               ("2030-01-01 00:10:00",
                                [3600, 86400 * 30, 86400 * 2000], 40)):
            secs = np.cumsum(rs.choice(steps, size=m))
            t = (pd.to_datetime(base) +
                 pd.to_timedelta(secs, unit="s")).as_unit("ns")
            out.append(len(dutils.var2h(
                pd.Series(rs.uniform(0, 1, m), index=t),
                display=bool(rs.randint(2)),
                maxgapsec=int(rs.choice([3600, 432000])),
                nbsec_per_period=int(rs.choice([3600, 1800])))))
        return out
    add("dutils.var2h", var2h, 2)

    def biggrid(rs, n):
        shape = [(216, 216), (1, n), (n, 1), (256, 257)][rs.randint(4)]
        nr, nc = shape
        g = Grid("big", nc, nr, cellsize=0.5, xllcorner=10.0, yllcorner=-5.0,
                 dtype=np.int64, nodata=0)
        # every cell drains east or south; last row east, last column south,
        # corner is the sink: acyclic
        d = rs.choice([1, 4], size=(nr, nc))
        d[-1, :] = 1
        d[:, -1] = 4
        d[-1, -1] = 0
        g.data[...] = d
        return g

    def gridwork(rs, n):
        g = biggrid(rs, n)
        nr, nc = g.nrows, g.ncols
        linear = nr == 1 or nc == 1   # one chain: accumulation is O(n^2)
        out = []
        if not linear:
            out.append(hgrid.accumulate(
                g, nprint=int(rs.choice([0, 10000]))).data.sum())
        f = Grid("alt", nc, nr, cellsize=0.5, xllcorner=10.0, yllcorner=-5.0,
                 dtype=np.float64, nodata=-9999.0)
        f.data[...] = rs.uniform(0, 100, (nr, nc))
        out.append(float(np.nansum(hgrid.slope(g, f, nprint=0).data)))
        out.append(g.neighbours(nr * nc - 1))
        xy = np.column_stack([rs.uniform(9, 10 + nc * 0.5 + 1, n),
                              rs.uniform(-6, -5 + nr * 0.5 + 1, n)])
        out.append(g.coord2cell(xy).sum())
        return out
    add("grid.accumulate/slope/neighbours/coord2cell", gridwork, 2)

    def catchwork(rs, n):
        g = biggrid(rs, n)
        nr, nc = g.nrows, g.ncols
        c = Catchment("bigcat", g)
        c.delineate_area(nr * nc - 1, nval=nr * nc + 5)
        out = [len(c.idxcells_area)]
        c.delineate_boundary()
        if nr > 1 and nc > 1:
            c.compute_flowpathlengths()
        out.append(len(c.idxcells_boundary))
        coarse = Grid("coarse", max(1, nc // 8), max(1, nr // 8), cellsize=4.0,
                      xllcorner=10.0, yllcorner=-5.0, dtype=np.float64)
        try:
            out.append(len(c.intersect(coarse)[0]))
        except Exception as ex:
            out.append(type(ex).__name__)
        xy = np.column_stack([rs.uniform(10, 10 + nc * 0.5, 5),
                              rs.uniform(-5, -5 + nr * 0.5, 5)])
        out.append(float(np.sum(hgrid.voronoi(c, xy))))
        return out
    add("Catchment(big).delineate/boundary/flowpaths/intersect/voronoi",
        catchwork, 2)

    def pip(rs, n):
        poly = np.array([[0, 0], [1, 0.2], [0.8, 1], [0.3, 0.6], [0, 1.0]])
        pts = rs.uniform(-0.2, 1.2, (n, 2))
        return gutils.points_inside_polygon(pts, poly).sum()
    add("gutils.points_inside_polygon", pip)
    return E
