"""C19 - batches partition the work; option managers enumerate and round-trip.

Engine B: the deployment hyruns is written for, in one process.  A master
actor builds an OptionManager and saves it; nbatch worker actors load it
(OptionManager.from_file, with its retry/sleep), take get_batch(ntasks, nbatch,
i) and walk their tasks.  Every file open/flush/read/close/exists and every
sleep is a scheduling point; crashes, restarts, delays and duplicate workers
are injected from the seed.  Oracles: what a worker loads is always a manager
the master wrote (never a third thing); batches and tasks match an arithmetic
model; the recorded history is a partition.
"""
import copy
import itertools
import json
import os
import warnings

import numpy as np

from ..core import Violation, Inconclusive, short
from ..sched import Sim, SimCrash
from ..simfs import SimFS

RUNS = {"quick": 4000, "thorough": 200000}
SELFCHECK = {"quick": 24, "thorough": 64}
# fresh-interpreter lane of the self-check runs under python -O as well (the
# operations of this engine do not depend on an assert of the pinned code)
FRESH_OPTIMIZE = True
CHUNK = 100
LEVEL = "exploration"
RULE = ("each run = one simulated fleet: drawn option grid (1-4 options x 1-5 "
        "values), context, key-name history, 1-8 workers, site list, "
        "wait_secs, userspace buffer size, start spread, master save plan, "
        "fault class (fault-free sequential / fault-free concurrent / "
        "faulty: crash+restart of master and workers, delays, duplicate "
        "workers); the seed decides every scheduling point; a run is "
        "non-trivial when a master save completed and >=1 worker obtained a "
        "manager and walked its batch; runs are distinct when their event-log "
        "digests differ")
INTERLEAVING_MEASURE = ("distinct per-run sequences of (actor, seam kind) "
                        "scheduling points")
REAL = ["hydrodiy.io.hyruns (get_batch, SiteBatch, OptionManager, OptionTask, "
        "key-name registry)", "json", "pathlib", "numpy.array_split"]
STUB = ["file layer (proxy over real files modelling userspace buffering and "
        "process crashes)", "clock (virtual; hyruns.time replaced)",
        "scheduler and fault injector", "master/worker driver scripts",
        "reference model of products and partitions"]
ASSUMPTIONS = [
    "process crashes only (no power loss): bytes flushed before a crash stay",
    "option values within one option are distinct; identifier-like strings; "
    "context values are JSON-representable",
    "renamed dictionary keys do not collide with each other at the same level "
    "or with the fixed keys name/tasks/taskid",
    "all actors of a run see the same key names (processes configured alike)",
    "only the master writes the manager file",
]

KEYS = ["context_name", "task_options_name", "manager_options_name"]
NAMEPOOL = ["context", "options", "ctx", "opts", "config", "cfg_2", "o",
            "settings"]
OPTKEYS = ["month", "model", "site", "lam", "k1", "alpha_b", "x", "n_iter"]
INTS = [0, 1, 2, 10, 11, 12, -1, 100, 7, 21, 20200101, 1000000, -1234567,
        20200102]
STRS = ["a", "ab", "abc", "b", "x_1", "x_10", "GR4J", "gr", "Z", "a1",
        "GR", "A", "z", "gr4j", "X_1",      # ... and names differing by case
        "\u00e9t\u00e9", "Is\u00e8re", "gr\u00f6\u00dfe",
        "\u6cb3\u5ddd"]                     # identifiers need not be ASCII
FLOATS = [0.5, 2.5, -1.5]


# ---------------------------------------------------------------------------
# model
# ---------------------------------------------------------------------------
def model_product(optmodel):
    """optmodel: list of (key, [values]) in insertion order -> list of dicts,
    last option fastest (mixed-radix counting, written out as arithmetic)."""
    sizes = [len(v) for _, v in optmodel]
    total = 1
    for s in sizes:
        total *= s
    out = []
    for t in range(total):
        rem = t
        idx = [0] * len(sizes)
        for j in range(len(sizes) - 1, -1, -1):
            idx[j] = rem % sizes[j]
            rem //= sizes[j]
        out.append({k: vals[i] for (k, vals), i in zip(optmodel, idx)})
    return out


def model_batch(n, k, i):
    """array_split written as arithmetic: first n%k batches have n//k+1."""
    q, r = divmod(n, k)
    start = i * q + min(i, r)
    size = q + (1 if i < r else 0)
    return list(range(start, start + size))


class ManagerModel:
    def __init__(self, name, context, optspec):
        self.name = name
        self.context = context            # plain dict
        self.optspec = optspec            # list of (key, bare?, [values])
        self.optmodel = [(k, vals) for k, _, vals in optspec]
        self.options = {k: list(vals) for k, vals in self.optmodel}
        self.tasks = model_product(self.optmodel)

    def describe(self):
        """kwargs() in words (no object addresses): for logs and messages."""
        return {k: (vals[0] if bare is True else
                    list(vals) if bare is False else f"{bare}{list(vals)}")
                for k, bare, vals in self.optspec}

    def kwargs(self):
        """Keyword arguments for from_cartesian_product; `bare` is True (the
        single value itself), False (a list) or the name of another container
        holding the same values in the same order."""
        kw = {}
        for k, bare, vals in self.optspec:
            if bare is True:
                kw[k] = vals[0]
            elif bare == "tuple":
                kw[k] = tuple(vals)
            elif bare == "range":
                kw[k] = range(vals[0], vals[0] + len(vals))
            elif bare == "dict_keys":
                kw[k] = {v: None for v in vals}.keys()
            elif bare == "generator":
                kw[k] = (v for v in list(vals))
            else:
                kw[k] = list(vals)
        return kw


def plain(x):
    """numpy scalars/arrays -> plain python for comparison."""
    if isinstance(x, dict):
        return {str(k): plain(v) for k, v in x.items()}
    if isinstance(x, (list, tuple)):
        return [plain(v) for v in x]
    if isinstance(x, np.generic):
        return x.item()
    return x


def same_manager(opm, mm):
    """Field-wise comparison of a real manager with a model (own code, does
    not rely on hyruns.__eq__)."""
    try:
        if plain(opm.context) != mm.context:
            return "context"
        if plain({k: list(v) for k, v in opm.options.items()}) != mm.options:
            return "options"
        if list(opm.options.keys()) != [k for k, _ in mm.optmodel]:
            return "option order"
        if opm.ntasks != len(mm.tasks):
            return "ntasks"
        if plain(list(opm.tasks)) != mm.tasks:
            return "tasks"
    except Exception as e:
        return f"unreadable ({e!r})"
    return None


# ---------------------------------------------------------------------------
def gen_optspec(cs, lab):
    nopt = cs.weighted(lab + ".nopt", [(2, 4), (1, 3), (3, 3), (4, 1)])
    start = cs.draw(lab + ".k0", len(OPTKEYS))
    spec = []
    for j in range(nopt):
        key = OPTKEYS[(start + j) % len(OPTKEYS)]
        kind = cs.weighted(f"{lab}.o{j}.kind",
                           [("ints", 5), ("strs", 4), ("bare", 2),
                            ("mixed", 2), ("intfloat", 1), ("floats", 1),
                            ("bools", 1)])
        if kind == "bare":
            v = cs.choice(f"{lab}.o{j}.bare", [3, "solo", 2.5, 0, "a"])
            spec.append((key, True, [v]))
            continue
        if kind == "mixed":
            # integers and identifier-like strings in one option
            pool = [INTS[(q * 3) % len(INTS)] if q % 2 == 0
                    else STRS[(q * 3) % len(STRS)] for q in range(10)]
        elif kind == "intfloat":
            # ... among them numbers whose text is a pattern matching another
            # one (2.5 / 215, 0.5 / 105) or holds a '+' (1e+20)
            pool = [1, 2.5, 3, 0.5, 7, -1.5, 10, 21, 0, 100, 215, 1e20, 105]
        elif kind == "floats":
            pool = [0.0, 0.5, 1.0, 2.5, -1.5, 10.0, 0.25, 3.0, 100.0, -2.0,
                    1e20, 205.0, 2e-07]
        elif kind == "bools":
            pool = [True, False] * 5
        else:
            pool = INTS if kind == "ints" else STRS
        nv = cs.between(f"{lab}.o{j}.nv", 1, 5)
        st = cs.draw(f"{lab}.o{j}.s0", len(pool))
        stride = cs.choice(f"{lab}.o{j}.stride", [1, 3, 7])
        vals = []
        for q in range(len(pool)):
            v = pool[(st + q * stride) % len(pool)]
            if v not in vals:
                vals.append(v)
            if len(vals) == nv:
                break
        # the same values in another ordered container
        cont = cs.weighted(f"{lab}.o{j}.container",
                           [(False, 12), ("tuple", 3), ("dict_keys", 1),
                            ("generator", 1), ("range", 2)])
        if cont == "range" and not (
                all(type(v) is int for v in vals) and
                vals == list(range(vals[0], vals[0] + len(vals)))):
            cont = "tuple"
        if cont == "dict_keys" and len({(v == v, v) for v in vals}) != \
                len(vals):
            cont = False
        spec.append((key, cont, vals))
    return spec


def gen_context(cs, lab):
    n = cs.between(lab + ".n", 0, 3)
    ctx = {}
    for j in range(n):
        key = ["basin", "version", "flags", "meta"][j]
        v = cs.choice(f"{lab}.v{j}", [1, "murray", 2.5, [1, 2, 3],
                                      {"a": 1, "b": "x"}, True, "v_2", 0,
                                      "Is\u00e8re", "\u6cb3\u5ddd"])
        ctx[key] = copy.deepcopy(v)
    return ctx


class SimTime:
    def __init__(self, sim):
        self.sim = sim

    def sleep(self, secs):
        self.sim.sleep(secs)

    def time(self):
        return self.sim.now / 1000.0


def check_equal_both(opm_a, opm_b, what, opkind):
    with warnings.catch_warnings():
        warnings.simplefilter("ignore")
        try:
            e1 = bool(opm_a == opm_b)
            e2 = bool(opm_b == opm_a)
        except Exception as e:
            raise Violation("equality_raised", f"{what}: == raised {e!r}",
                            opkind)
    if not (e1 and e2):
        raise Violation("roundtrip_not_equal",
                        f"{what}: loaded==saved is {e1}, saved==loaded is {e2}",
                        opkind)


def check_tasks_and_find(cs, opm, mm, where, opkind, lab):
    """get_task / find against the model on a real manager."""
    n = len(mm.tasks)
    if opm.ntasks != n:
        raise Violation("ntasks_wrong", f"{where}: ntasks {opm.ntasks} != {n}",
                        opkind)
    # enumeration: every combination exactly once, in product order
    got = plain(list(opm.tasks))
    if got != mm.tasks:
        raise Violation("enumeration_wrong",
                        f"{where}: tasks {short(got, 400)} != model "
                        f"{short(mm.tasks, 400)}", opkind)
    seen = set()
    for t in got:
        key = json.dumps(t, sort_keys=True)
        if key in seen:
            raise Violation("enumeration_duplicate", f"{where}: {t} twice",
                            opkind)
        seen.add(key)
    # find on one drawn (key, value), including a value that is a prefix of
    # another value of the same option when there is one
    k, vals = mm.optmodel[cs.draw(lab + ".fk", len(mm.optmodel))]
    v = vals[cs.draw(lab + ".fv", len(vals))]
    if isinstance(v, float):
        # find matches the printed form as a pattern ('.' is a wildcard):
        # only ask when no other value of the option is matched by accident
        import re as _re
        if any(w != v and _re.search(f"^{v}$", str(w)) for w in vals):
            return
    try:
        ids = list(opm.find(**{k: v}))
    except Exception as e:
        raise Violation("find_raised", f"{where}: find({k}={v!r}) raised {e!r}",
                        opkind)
    want = [t for t in range(n) if mm.tasks[t][k] == v]
    if [int(x) for x in ids] != want:
        raise Violation("find_wrong", f"{where}: find({k}={v!r}) = {ids} != "
                        f"{want}; options {mm.options}", opkind)
    if len(mm.optmodel) > 1 and cs.flip(lab + ".f2", 40):
        k2, vals2 = mm.optmodel[cs.draw(lab + ".fk2", len(mm.optmodel))]
        v2 = vals2[cs.draw(lab + ".fv2", len(vals2))]
        if k2 != k and not isinstance(v2, float):
            ids = [int(x) for x in opm.find(**{k: v, k2: v2})]
            want = [t for t in range(n) if mm.tasks[t][k] == v
                    and mm.tasks[t][k2] == v2]
            if ids != want:
                raise Violation("find_wrong", f"{where}: find({k}={v!r}, "
                                f"{k2}={v2!r}) = {ids} != {want}", opkind)


INT_SPELLINGS = ["int", "int", "int", "int64", "int32", "uint8", "int8",
                 "uint16", "int16", "uint32", "uint64", "0d_int64", "0d_uint8",
                 "0d_int16"]


def spell_int(v, how):
    """The integer v as another integer type, when that type can hold it."""
    if how == "int":
        return v
    zero_d = how.startswith("0d_")
    dt = np.dtype(how[3:] if zero_d else how)
    info = np.iinfo(dt)
    if not (info.min <= v <= info.max):
        return v
    return np.array(v, dtype=dt) if zero_d else dt.type(v)


def check_partition(n, k, batches, where, opkind):
    """batches: list of k lists as returned by get_batch for i=0..k-1."""
    flat = []
    sizes = []
    for i, b in enumerate(batches):
        b = [int(x) for x in b]
        if b != list(range(b[0], b[0] + len(b))) if b else False:
            raise Violation("batch_not_contiguous",
                            f"{where}: n={n} k={k} i={i}: {b}", opkind)
        if b != model_batch(n, k, i):
            raise Violation("batch_differs_from_model",
                            f"{where}: get_batch({n},{k},{i}) = {short(b)} != "
                            f"{short(model_batch(n, k, i))}", opkind)
        flat += b
        sizes.append(len(b))
    if flat != list(range(n)):
        raise Violation("batches_not_a_partition",
                        f"{where}: n={n} k={k}: concatenation {short(flat)}",
                        opkind)
    if max(sizes) - min(sizes) > 1:
        raise Violation("batch_sizes_unbalanced", f"{where}: sizes {sizes}",
                        opkind)


# ---------------------------------------------------------------------------
def sequential_part(cs, log, ctx, hyruns, managers):
    """Engine-A style steps on the main thread before the fleet starts."""
    # (1) get_batch sweeps over drawn (n, k): every index + rejected calls
    for r in range(cs.between("sweeps", 1, 3)):
        with cs.span("sweep"):
            n = cs.weighted("n", [(cs.between("n.small", 1, 24), 3),
                                  (cs.between("n.large", 25, 400), 2)])
            k = cs.between("k", 1, n)
            log.ev("sweep", n, k)
            log.kind("sweep")
            # the three integers as the caller happens to hold them: Python
            # ints, numpy integers of any width that can hold the value
            # (what np.arange(..., dtype=...) or a len() of a typed array
            # hands out), 0-d arrays
            sp = {nm: cs.choice("int." + nm, INT_SPELLINGS)
                  for nm in ("n", "k", "i")}
            if any(v != "int" for v in sp.values()):
                log.ev("sweep.int_spelling", sp["n"], sp["k"], sp["i"])
                ctx.hit("probe.integers_given_as_numpy_types")
            try:
                batches = [hyruns.get_batch(spell_int(n, sp["n"]),
                                            spell_int(k, sp["k"]),
                                            spell_int(i, sp["i"]))
                           for i in range(k)]
            except Exception as e:
                raise Violation("get_batch_raised",
                                f"get_batch({n},{k},i) with integers given as "
                                f"{sp} raised {e!r}", "sweep")
            check_partition(n, k, batches, f"sweep (integers as {sp})",
                            "sweep")
            if cs.flip("reuse", 50):
                # the caller reuses the arrays it was handed; a later call
                # with the same arguments must not see that
                for b in batches:
                    if hasattr(b, "fill"):
                        b.fill(-3)
                ctx.hit("fault.caller_overwrites_returned_batch")
                again = [hyruns.get_batch(n, k, i) for i in range(k)]
                check_partition(n, k, again, "sweep after the caller "
                                "overwrote earlier results", "sweep")
            bad = cs.choice("bad", [(n, n + 1 + cs.draw("over", 3), 0),
                                    (n, k, k), (n, k, -1),
                                    (n, k, k + cs.draw("beyond", 5))])
            try:
                res = hyruns.get_batch(*bad)
            except Exception:
                ctx.hit("fault.rejected_get_batch")
            else:
                raise Violation("invalid_call_accepted",
                                f"get_batch{bad} returned {short(res)}",
                                "sweep")
    # (1b) SiteBatch: every site is found in the batch that holds it
    with cs.span("sitesweep"):
        ns = cs.weighted("ns", [(cs.between("ns.s", 1, 30), 3),
                                (cs.between("ns.l", 31, 520), 1)])
        nb = cs.between("nb", 1, min(ns, 12))
        ids = [f"s{j:04d}" for j in range(ns)] if cs.flip("str", 50) \
            else [1000 + 7 * j for j in range(ns)]
        # sites come in the caller's order, which need not be sorted
        order = cs.choice("order", ["ascending", "descending", "interleaved"])
        if order == "descending":
            ids = ids[::-1]
        elif order == "interleaved":
            ids = ids[1::2] + ids[0::2]
        log.ev("sitesweep", ns, nb, order)
        log.kind("sitesweep")
        spi = cs.choice("int.i", INT_SPELLINGS)
        try:
            sb = hyruns.SiteBatch(ids, nb)
            lists = [sb[spell_int(i, spi)] for i in range(nb)]
            owners = [sb.search(x) for x in ids]
        except Exception as e:
            raise Violation("sitebatch_raised", f"SiteBatch({ns},{nb}) raised "
                            f"{e!r}", "sitesweep")
        for j, x in enumerate(ids):
            want = [b for b in range(nb) if j in model_batch(ns, nb, b)][0]
            if owners[j] != want or x not in plain(lists[want]) or \
                    plain(lists[want]) != [ids[q] for q in
                                           model_batch(ns, nb, want)]:
                raise Violation("sitebatch_search_wrong",
                                f"SiteBatch({ns} sites, {nb} batches): site "
                                f"#{j} is in batch {want}, search says "
                                f"{owners[j]}", "sitesweep")
        # more batches than sites is one of the rejected configurations
        # (nbatch > nelements): no batch exists, so asking for one, or for the
        # batch of a site, must not be answered as if all were well
        if cs.flip("too_many_batches", 40):
            nb2 = ns + 1 + cs.draw("over", 3)
            log.ev("sitesweep.too_many_batches", ns, nb2)
            for what in ("getitem", "search"):
                try:
                    sb2 = hyruns.SiteBatch(ids, nb2)
                    res = sb2[cs.draw("i2", nb2)] if what == "getitem" \
                        else sb2.search(ids[cs.draw("s2", ns)])
                except Exception:
                    ctx.hit("fault.rejected_sitebatch_call")
                else:
                    raise Violation("invalid_call_accepted",
                                    f"SiteBatch({ns} sites, {nb2} batches)."
                                    f"{what} returned {short(res)!r}",
                                    "sitesweep")
    # (2) dictionary / JSON round-trips under the current key names
    for idx, (opm, mm) in enumerate(managers):
        with cs.span("roundtrip"):
            log.kind("roundtrip")
            via = cs.choice("via", ["json", "deepcopy", "json_indent"])
            d = opm.to_dict()
            if via == "deepcopy":
                try:
                    d2 = copy.deepcopy(d)
                except Exception:
                    d2 = dict(d)     # holds something that cannot be copied
            else:
                try:
                    d2 = json.loads(json.dumps(
                        d, indent=4 if via == "json_indent" else None))
                except Exception as e:
                    raise Violation("json_roundtrip_failed",
                                    f"manager {idx} built from "
                                    f"{short(mm.describe())}: to_dict() cannot "
                                    f"go through JSON: {e!r}", "roundtrip")
            names = dict(hyruns._DICT_KEYNAMES)
            for need in ("name", "tasks", names["context_name"],
                         names["manager_options_name"]):
                if need not in d:
                    raise Violation("to_dict_missing_key",
                                    f"to_dict() lacks {need!r} (key names "
                                    f"{names})", "roundtrip")
            try:
                back = hyruns.OptionManager.from_dict(d2)
            except Exception as e:
                raise Violation("from_dict_raised", f"from_dict(to_dict()) "
                                f"raised {e!r} under key names {names}",
                                "roundtrip")
            why = same_manager(back, mm)
            if why:
                raise Violation("roundtrip_differs_from_model",
                                f"manager {idx} via {via} under {names}: {why}",
                                "roundtrip")
            check_equal_both(back, opm, f"manager {idx} via {via}", "roundtrip")
            check_tasks_and_find(cs, back, mm, f"round-tripped manager {idx}",
                                 "roundtrip", "rt")
            if cs.flip("read_dictionary_again", 40):
                # the same dictionary is read a second time (two managers from
                # one exported description)
                try:
                    again = hyruns.OptionManager.from_dict(d2)
                except Exception as e:
                    raise Violation("from_dict_raised", "second from_dict of "
                                    f"the same dictionary raised {e!r}",
                                    "roundtrip")
                why = same_manager(again, mm)
                if why:
                    raise Violation("roundtrip_differs_from_model",
                                    f"manager {idx}: second from_dict of the "
                                    f"same dictionary: {why}", "roundtrip")
            log.ev("roundtrip", idx, via, len(mm.tasks))
            ctx.hit("probe.dict_roundtrip")
            if names != hyruns._DICT_KEYNAMES_DEFAULT:
                ctx.hit("probe.roundtrip_with_renamed_keys")


def run(cs, log, ctx):
    from hydrodiy.io import hyruns
    import pathlib
    work = ctx.workdir
    work.mkdir(parents=True, exist_ok=True)
    real_time = hyruns.time
    sim = None
    fs = None
    try:
        with cs.span("config"):
            # ---- key-name history (process-global registry)
            hyruns.reset_dict_keyname()
            nk = cs.weighted("nkeyops", [(0, 5), (1, 3), (2, 2), (3, 1)])
            for j in range(nk):
                if cs.flip(f"kreset{j}", 20):
                    hyruns.reset_dict_keyname()
                    log.ev("keyname.reset")
                    continue
                key = cs.choice(f"kkey{j}", KEYS)
                name = cs.choice(f"kname{j}", NAMEPOOL)
                cur = dict(hyruns._DICT_KEYNAMES)
                cur[key] = name
                if cur["context_name"] in (cur["manager_options_name"],
                                           cur["task_options_name"]):
                    continue          # colliding names at one level: not legal
                hyruns.set_dict_keyname(key, name)
                log.ev("keyname.set", key, name)
            log.ev("keynames", sorted(hyruns._DICT_KEYNAMES.items()))
            # ---- managers
            spec1 = gen_optspec(cs, "m1")
            spec2 = gen_optspec(cs, "m2")
            ctx1 = gen_context(cs, "c1")
            ctx2 = gen_context(cs, "c2")
            mm = [ManagerModel("Task Manager", ctx1, spec1),
                  ManagerModel("second", ctx2, spec2)]
            if mm[1].tasks == mm[0].tasks and mm[1].context == mm[0].context:
                mm[1] = ManagerModel("second", dict(ctx2, extra=1), spec2)
            if cs.flip("second_is_variant_of_first", 30):
                # same option grid as the first manager, other name, context
                # with one entry less (or one more): a near-copy that must
                # nevertheless replace the first one when saved over it
                ctxv = dict(ctx1)
                if ctxv and cs.flip("drop_ctx", 60):
                    ctxv.pop(sorted(ctxv)[0])
                else:
                    ctxv["revision"] = 2
                mm[1] = ManagerModel("second", ctxv, spec1)
            nbatch = cs.between("nbatch", 1, 8)
            if nbatch > len(mm[0].tasks) and not cs.flip("keep_overbatch", 15):
                nbatch = 1 + cs.draw("nbatch2", len(mm[0].tasks))
            wait_secs = cs.choice("wait_secs", [0.01, 0, 0.5, 2])
            nchunks = cs.choice("nchunks", [12, 3, 40, 1, 150, 400])
            klass = cs.weighted("class", [("faulty", 5), ("ff_concurrent", 3),
                                          ("ff_sequential", 2)])
            plan = cs.weighted("plan", [([(0, False)], 4),
                                        ([(0, False), (0, False)], 1),
                                        ([(0, False), (1, False)], 2),
                                        ([(0, False), (1, True)], 3)])
            gap_ms = cs.draw("gap_ms", 4000)
            nsites = cs.weighted("nsites", [(cs.between("ns.s", 1, 20), 2),
                                            (cs.between("ns.l", 21, 200), 1)])
            site_kind = cs.choice("site_kind", ["str", "int"])
            s0 = cs.draw("site0", 1000)
            sites = [f"S{s0 + 3 * j:06d}" if site_kind == "str"
                     else s0 + 3 * j for j in range(nsites)]
            site_order = cs.choice("site_order", ["ascending", "descending",
                                                  "rotated", "ascending"])
            if site_order == "descending":
                sites = sites[::-1]
            elif site_order == "rotated":
                r = nsites // 3 + 1
                sites = sites[r:] + sites[:r]
            starts = [cs.draw(f"start{i}", 3000) for i in range(nbatch)]
            backoff = [10 + cs.draw(f"backoff{i}", 3000) for i in range(nbatch)]
            aspath = [cs.flip(f"aspath{i}", 50) for i in range(nbatch)]
            scribble = [cs.flip(f"scribble{i}", 40) for i in range(nbatch)]
            bad_worker = cs.weighted("bad_worker", [(None, 4), (nbatch, 1),
                                                    (-1, 1)])
            ndup = cs.weighted("ndup", [(0, 3), (1, 2), (2, 1)]) \
                if klass == "faulty" else 0
            dups = [(cs.draw(f"dup{j}", nbatch), cs.draw(f"dupstart{j}", 6000))
                    for j in range(ndup)]
            crash_rate = cs.choice("crash_rate", [15, 5, 40, 0]) \
                if klass == "faulty" else 0
            delay_rate = cs.choice("delay_rate", [10, 0, 30]) \
                if klass == "faulty" else 0
            budget = cs.between("fault_budget", 1, 6) if klass == "faulty" \
                else 0
            io_rate = cs.choice("io_fault_rate", [0, 0, 20, 60]) \
                if klass == "faulty" else 0
            log.ev("config", nbatch, wait_secs, nchunks, klass, plan, nsites,
                   starts, backoff, bad_worker, dups, crash_rate, delay_rate,
                   budget, io_rate, [m.describe() for m in mm],
                   [m.context for m in mm])
        ctx.hit("class." + klass)

        # ---- real managers (master's view), checked against the model
        managers = []
        derived = []     # managers obtained from in-memory exports, kept alive
        for mi, m in enumerate(mm):
            opm = hyruns.OptionManager(m.name, **copy.deepcopy(m.context))
            # history on the same manager object before its final build:
            # earlier builds from other option grids, dictionary round-trips
            with cs.span("mhist"):
                nprev = cs.weighted("nprev", [(0, 5), (1, 3), (2, 2)])
                for h in range(nprev):
                    if cs.flip(f"prev{h}.same", 25):
                        pm = ManagerModel(m.name, m.context, m.optspec)
                    else:
                        pm = ManagerModel(m.name, m.context,
                                          gen_optspec(cs, f"prev{h}"))
                    log.ev("rebuild", mi, pm.describe())
                    log.kind("rebuild")
                    try:
                        opm.from_cartesian_product(**pm.kwargs())
                    except Exception as e:
                        raise Violation("from_cartesian_product_raised",
                                        f"{pm.describe()} raised {e!r}", "build")
                    why = same_manager(opm, pm)
                    if why:
                        raise Violation(
                            "enumeration_wrong",
                            f"build #{h + 1} on the same manager with "
                            f"{pm.describe()}: {why}: "
                            f"{short(plain(list(opm.tasks)), 300)}", "rebuild")
                    ctx.hit("probe.manager_rebuilt")
                    for (dm, dmm, how) in derived:
                        why = same_manager(dm, dmm)
                        if why:
                            raise Violation(
                                "derived_manager_changed",
                                f"a manager obtained by from_dict ({how}) "
                                f"changed when the manager it was exported "
                                f"from was built again: {why}", "rebuild")
                    rt = cs.weighted(f"prev{h}.rt", [(None, 5), ("json", 2),
                                                     ("raw_keep", 3)])
                    try:
                        if rt == "json":
                            opm = hyruns.OptionManager.from_dict(
                                json.loads(json.dumps(opm.to_dict())))
                            opm.name = m.name
                            log.ev("continue_from_dict", mi)
                        elif rt == "raw_keep":
                            # in-memory export/import; both managers live on
                            snapd = opm.to_dict()
                            derived.append(
                                (hyruns.OptionManager.from_dict(snapd), pm,
                                 "in-memory dictionary"))
                            log.ev("derive_from_dict", mi)
                            ctx.hit("probe.derived_manager_kept_alive")
                    except Exception as e:
                        raise Violation(
                            "from_dict_raised", f"from_dict(to_dict()) raised "
                            f"{e!r} under key names "
                            f"{dict(hyruns._DICT_KEYNAMES)}", "rebuild")
            try:
                opm.from_cartesian_product(**m.kwargs())
            except Exception as e:
                raise Violation("from_cartesian_product_raised",
                                f"{m.describe()} raised {e!r}", "build")
            for (dm, dmm, how) in derived:
                why = same_manager(dm, dmm)
                if why:
                    raise Violation(
                        "derived_manager_changed",
                        f"a manager obtained by from_dict ({how}) changed when "
                        f"the manager it was exported from was built again: "
                        f"{why}", "build")
            why = same_manager(opm, m)
            if why:
                raise Violation("enumeration_wrong",
                                f"from_cartesian_product({m.describe()}): {why}: "
                                f"{short(plain(list(opm.tasks)), 300)}", "build")
            managers.append((opm, m))
        with cs.span("keynames2"):
            # the registry may also be changed while managers are alive (still
            # before anything is exported): renames and resets
            for j in range(cs.weighted("nkeyops2", [(0, 5), (1, 3), (2, 2)])):
                if cs.flip(f"kreset{j}", 40):
                    hyruns.reset_dict_keyname()
                    log.ev("keyname.reset(after build)")
                    ctx.hit("probe.keynames_reset_while_managers_alive")
                    continue
                key = cs.choice(f"kkey{j}", KEYS)
                name = cs.choice(f"kname{j}", NAMEPOOL)
                cur = dict(hyruns._DICT_KEYNAMES)
                cur[key] = name
                if cur["context_name"] in (cur["manager_options_name"],
                                           cur["task_options_name"]):
                    continue
                hyruns.set_dict_keyname(key, name)
                log.ev("keyname.set(after build)", key, name)
                ctx.hit("probe.keynames_changed_while_managers_alive")
        with cs.span("seq"):
            sequential_part(cs, log, ctx, hyruns, managers)
            check_tasks_and_find(cs, managers[0][0], mm[0], "master manager",
                                 "build", "mf")

        # userspace buffer size: the save reaches the file in ~nchunks pieces
        try:
            biggest = max(len(json.dumps(o.to_dict(), indent=4))
                          for o, _ in managers)
        except Exception as e:
            raise Violation("json_roundtrip_failed", "to_dict() of a manager "
                            f"cannot go through JSON: {e!r}", "build")
        bufsize = max(1, -(-biggest // nchunks))
        log.ev("bufsize", bufsize, biggest)

        # ---- the fleet
        sim = Sim(cs, log, ctx, max_steps=20000)
        fs = SimFS(sim, ctx, work, bufsize)
        # the default text encoding of the processes (their locale): files
        # opened without an explicit encoding are written and read with it
        fs.default_encoding = cs.weighted("default_encoding",
                                          [("utf-8", 5), ("ascii", 2),
                                           ("cp1252", 1), ("latin-1", 1)])
        log.ev("default_encoding", fs.default_encoding)
        if fs.default_encoding != "utf-8":
            ctx.hit("fault.default_text_encoding_not_utf8")
        sim.fs = fs
        sim.fault_rates = {"crash": crash_rate, "delay": delay_rate}
        sim.fault_budget = budget
        fs.io_fault_rate = io_rate
        fs.io_fault_budget = 2 if io_rate else 0
        path = os.path.join(os.path.realpath(str(work)), "opm.json")
        started = {}          # manager index -> True once a write of it began
        history = []          # (worker i, inc, version k, ids)
        finished_saves = [0]
        gave_up = [0]
        real_exists = os.path.exists

        def do_save(k, overwrite):
            existed = real_exists(path)
            expected_write = overwrite or not existed
            e0 = fs.write_epoch
            # whatever this call may write is a manager "the master wrote"
            started[k] = True
            log.ev("save.begin", k, overwrite, existed)
            target = pathlib.Path(path) if k == 1 else path
            managers[k][0].save(target, overwrite=overwrite)
            e1 = fs.write_epoch
            log.ev("save.end", k, e1 - e0)
            if expected_write and e1 == e0 and io_rate == 0:
                raise Violation("save_did_not_write",
                                f"save(overwrite={overwrite}) with file "
                                f"{'present' if existed else 'absent'} wrote "
                                "nothing", "save")
            if e1 != e0:
                finished_saves[0] += 1
            else:
                ctx.hit("probe.save_left_existing_file_alone")

        def master(a):
            if a.inc == 0:
                for j, (k, ow) in enumerate(plan):
                    if j > 0:
                        sim.sleep(gap_ms / 1000.0)
                    do_save(k, ow)
            else:       # restarted process: no local state, re-publish
                kf = plan[-1][0] if plan[-1][1] else 0
                do_save(kf, True)

        def worker_fn(i, inc_label):
            def worker(a):
                opm = None
                for attempt in range(20):
                    e0 = fs.write_epoch
                    quiescent = fs.complete.get(path, False) and \
                        fs.writers_active == 0
                    log.ev("load.begin", i, a.inc, attempt, quiescent)
                    p = pathlib.Path(path) if aspath[i % len(aspath)] else path
                    try:
                        with warnings.catch_warnings():
                            warnings.simplefilter("ignore")
                            opm = hyruns.OptionManager.from_file(
                                p, wait_secs=wait_secs)
                    except Exception as e:
                        log.ev("load.failed", i, a.inc, type(e).__name__)
                        ctx.hit("probe.load_failed_" + type(e).__name__)
                        if quiescent and fs.write_epoch == e0:
                            raise Violation(
                                "from_file_failed_on_complete_file",
                                f"worker {i}: from_file raised {e!r} although "
                                "a complete file was in place and no writer "
                                "was active during the call", "load")
                        sim.sleep(backoff[i % len(backoff)] / 1000.0)
                        continue
                    break
                if opm is None:
                    gave_up[0] += 1
                    log.ev("gave_up", i, a.inc)
                    return
                # which saved manager is it?  never a third thing
                version = None
                for k, (real, m) in enumerate(managers):
                    if started.get(k) and same_manager(opm, m) is None:
                        version = k
                        break
                if version is None:
                    whys = [same_manager(opm, m) for _, m in managers]
                    raise Violation(
                        "loaded_manager_matches_no_saved_manager",
                        f"worker {i} obtained a manager that differs from "
                        f"every manager the master wrote ({whys}); started="
                        f"{sorted(started)}; ntasks={getattr(opm, 'ntasks', '?')}",
                        "load")
                real, m = managers[version]
                check_equal_both(opm, real, f"worker {i} loaded vs saved "
                                 f"manager {version}", "load")
                log.ev("load.ok", i, a.inc, version)
                ctx.hit("probe.worker_loaded_manager")
                n = len(m.tasks)
                # ---- batch
                try:
                    if i % 2:
                        ids = hyruns.get_batch(nelements=opm.ntasks,
                                               ibatch=i, nbatch=nbatch)
                    else:
                        ids = hyruns.get_batch(opm.ntasks, nbatch, i)
                except Exception as e:
                    if n < nbatch or i < 0 or i >= nbatch:
                        ctx.hit("fault.rejected_get_batch")
                        log.ev("batch.rejected", i, n, nbatch)
                        return
                    raise Violation("get_batch_rejected_valid_call",
                                    f"get_batch({n},{nbatch},{i}) raised {e!r}",
                                    "batch")
                if n < nbatch or i < 0 or i >= nbatch:
                    raise Violation("invalid_call_accepted",
                                    f"get_batch({n},{nbatch},{i}) returned "
                                    f"{short(list(ids))}", "batch")
                raw = ids
                ids = [int(x) for x in ids]
                if hasattr(raw, "fill") and len(ids) and \
                        scribble[i % len(scribble)]:
                    # the caller owns the array it was given and may reuse it
                    raw.fill(-7)
                    ctx.hit("fault.caller_overwrites_returned_batch")
                if ids != model_batch(n, nbatch, i):
                    raise Violation("batch_differs_from_model",
                                    f"get_batch({n},{nbatch},{i}) = {short(ids)}"
                                    f" != {short(model_batch(n, nbatch, i))}",
                                    "batch")
                for t in ids:
                    try:
                        task = opm.get_task(t)
                    except Exception as e:
                        raise Violation("get_task_raised",
                                        f"get_task({t}) raised {e!r}", "batch")
                    if int(task.taskid) != t or plain(task.options) != \
                            m.tasks[t] or plain(task.context) != m.context:
                        raise Violation(
                            "task_differs_from_model",
                            f"worker {i} task {t}: options "
                            f"{plain(task.options)} context "
                            f"{plain(task.context)} != {m.tasks[t]} / "
                            f"{m.context}", "batch")
                history.append((i, a.inc, version, ids))
                check_tasks_and_find(cs, opm, m, f"worker {i} manager",
                                     "batch", f"w{i}")
                # ---- sites
                sb = hyruns.SiteBatch(list(sites), nbatch) if i % 2 else \
                    hyruns.SiteBatch(nbatch=nbatch, siteids=list(sites))
                try:
                    mine = sb[i]
                except Exception as e:
                    if nsites < nbatch:
                        return
                    raise Violation("sitebatch_raised",
                                    f"SiteBatch({nsites},{nbatch})[{i}] raised "
                                    f"{e!r}", "sites")
                want = [sites[j] for j in model_batch(nsites, nbatch, i)] \
                    if nsites >= nbatch else None
                if want is None:
                    raise Violation("invalid_call_accepted",
                                    f"SiteBatch({nsites},{nbatch})[{i}] "
                                    "accepted", "sites")
                if plain(mine) != want:
                    raise Violation("sitebatch_wrong",
                                    f"SiteBatch({nsites},{nbatch})[{i}] = "
                                    f"{short(mine)} != {short(want)}", "sites")
                j = cs.draw(f"w{i}.site", nsites) if a.inc == 0 and \
                    inc_label == 0 else (i * 7) % nsites
                try:
                    owner = sb.search(sites[j])
                except Exception as e:
                    raise Violation("sitebatch_raised",
                                    f"SiteBatch({nsites},{nbatch}).search("
                                    f"{sites[j]!r}) raised {e!r}", "sites")
                wantowner = [b for b in range(nbatch)
                             if j in model_batch(nsites, nbatch, b)][0]
                if owner != wantowner:
                    raise Violation("sitebatch_search_wrong",
                                    f"search({sites[j]!r}) = {owner} != "
                                    f"{wantowner} (nsites={nsites}, "
                                    f"nbatch={nbatch})", "sites")
                ctx.hit("probe.worker_finished_batch")
                log.ev("worker.done", i, a.inc, version, len(ids))
            return worker

        crash_restarts = [0]

        def on_crash(a):
            crash_restarts[0] += 1
            d = 1 + cs.draw("restart_ms", 3000)
            if a.role == "master":
                ctx.hit("fault.restart_master")
                sim.spawn("master", master, role="master", inc=a.inc + 1,
                          delay_ms=d)
            else:
                ctx.hit("fault.restart_worker")
                i = int(a.name.split("#")[1])
                sim.spawn(a.name, worker_fn(i, a.inc + 1), role="worker",
                          inc=a.inc + 1, delay_ms=d)

        sim.on_crash = on_crash
        hyruns.time = SimTime(sim)
        fs.install()
        try:
            sim.spawn("master", master, role="master")
            if klass == "ff_sequential":
                sim.run_until_idle()
            for i in range(nbatch):
                d = starts[i] if klass != "ff_sequential" else 0
                sim.spawn(f"worker#{i}", worker_fn(i, 0), role="worker",
                          delay_ms=d)
            if bad_worker is not None:
                sim.spawn(f"worker#{bad_worker}", worker_fn(bad_worker, 0),
                          role="worker", delay_ms=starts[0])
            for (i, d) in dups:
                ctx.hit("fault.duplicate_worker")
                sim.spawn(f"worker#{i}", worker_fn(i, 100), role="worker",
                          inc=100, delay_ms=d)
            sim.run_until_idle()
        finally:
            sim.shutdown()
            fs.uninstall()
        if sim.error is not None:
            raise sim.error
        if sim.violation is not None:
            raise sim.violation

        # ---- history checks ------------------------------------------------
        owner = {}
        for (i, inc, version, ids) in history:
            for t in ids:
                key = (version, t)
                if owner.setdefault(key, i) != i:
                    raise Violation("task_owned_by_two_batches",
                                    f"task {t} of manager {version} taken by "
                                    f"batches {owner[key]} and {i}", "history")
        for version, (real, m) in enumerate(managers):
            n = len(m.tasks)
            if n < nbatch:
                continue
            done = {}
            for (i, inc, v, ids) in history:
                if v == version and 0 <= i < nbatch:
                    done[i] = ids
            if len(done) == nbatch:
                check_partition(n, nbatch, [done[i] for i in range(nbatch)],
                                f"history of manager {version}", "history")
                ctx.hit("probe.full_partition_observed")
        if gave_up[0]:
            ctx.hit("probe.worker_gave_up", gave_up[0])
        if klass != "faulty" and gave_up[0] and finished_saves[0]:
            # liveness of the simulated system once nothing fails: reported,
            # not a property violation (C19 does not promise it)
            ctx.hit("liveness.gave_up_without_faults", gave_up[0])
        # final file content is a manager the master wrote
        if finished_saves[0] and real_exists(path):
            with open(path, "r") as fo:
                txt = fo.read()
            try:
                final = hyruns.OptionManager.from_dict(json.loads(txt))
            except Exception:
                final = None
            if final is not None:
                if not any(started.get(k) and same_manager(final, m) is None
                           for k, (_, m) in enumerate(managers)):
                    raise Violation("final_file_matches_no_saved_manager",
                                    "file on disk after the run parses but "
                                    "equals no manager the master wrote",
                                    "history")
        if finished_saves[0] and history:
            ctx.hit("nontrivial")
        ctx.hit("steps", sim.steps)
    finally:
        hyruns.time = real_time
        hyruns.reset_dict_keyname()
        if fs is not None:
            fs.uninstall()


def warmup():
    import pathlib, json  # noqa: F401,E401
    from hydrodiy.io import hyruns  # noqa: F401
