"""C12 - bounded vectors and transforms under operation histories.

Engine A: a pool of live real Vector / Transform objects, beside each a tiny
executable model written from the property statement (not from the code).
Every step draws one operation, applies it to the real object and the model,
compares the outcome, then checks *every* live object against its model (which
is what exposes aliasing between pool members and with caller buffers).
"""
import copy
import warnings

import numpy as np

from ..core import Violation, feqv, short

RUNS = {"quick": 10000, "thorough": 400000}
SELFCHECK = {"quick": 64, "thorough": 256}
# the fresh-interpreter lane of the determinism self-check runs with asserts
# compiled out (python -O): containers.py and transform.py use no assert, so
# the vectors' behaviour - and every event log - must be the same there
FRESH_OPTIMIZE = True
CHUNK = 250
LEVEL = "exploration"
RULE = ("each run = seeded sequence of 1-40 operations over a pool of <=4 "
        "vectors and <=3 transforms (swarm-style per-run knobs: enabled "
        "operation kinds, value-class weights, pool size); a run is "
        "non-trivial when it contains >=1 accepted state-changing assignment "
        "and >=1 comparison of a live object with its model after it; runs "
        "are distinct when their event-log digests (every decision and every "
        "observed outcome) differ")
INTERLEAVING_MEASURE = "distinct per-run operation-kind sequences"
REAL = ["hydrodiy.data.containers.Vector", "hydrodiy.stat.transform (13 "
        "classes, get_transform)", "hydrodiy.stat.sutils.lhs", "numpy"]
STUB = ["operation scheduler (ChoiceStream)", "reference models VecModel",
        "numpy global RNG seeded by the harness before sampling calls"]
ASSUMPTIONS = [
    "assigned values are inside, exactly on, or at least 1e-6 (absolute and "
    "relative) outside a bound, as in the property's quantifier",
    "element names do not collide with Vector attribute names",
    "the harness never writes into arrays returned by getters; it does "
    "overwrite buffers it passed in",
    "0.0 and -0.0 are treated as equal; all NaNs are equal",
]

NAMES = ["a", "b", "c", "d", "e1", "x_2", "kk", "lam0"]
TRANSFORMS = ["Identity", "Logit", "Log", "BoxCox2", "BoxCox1lam", "BoxCox1nu",
              "BoxCox2sym", "YeoJohnson", "Reciprocal", "Softmax", "Sinh",
              "LogSinh", "Manly"]
INF = float("inf")
NAN = float("nan")


def clip1(v, lo, hi):
    if v != v:
        return v
    return min(max(v, lo), hi)


class VecModel:
    def __init__(self, names, mins, maxs, defaults, check_bounds,
                 check_hitbounds, accept_nan):
        self.names = list(names)
        self.mins = [float(x) for x in mins]
        self.maxs = [float(x) for x in maxs]
        self.defaults = [float(x) for x in defaults]
        self.values = list(self.defaults)
        self.check_bounds = bool(check_bounds)
        self.check_hitbounds = bool(check_hitbounds)
        self.accept_nan = bool(accept_nan)
        self.hit = False

    @property
    def n(self):
        return len(self.names)

    def acceptable(self, vals):
        if len(vals) != self.n:
            return False
        if any(v != v for v in vals) and not self.accept_nan:
            return False
        return True

    def assign_all(self, vals):
        vals = [float(v) for v in vals]
        if self.check_hitbounds:
            self.hit = any(v < lo or v > hi for v, lo, hi
                           in zip(vals, self.mins, self.maxs))
        else:
            self.hit = False
        self.values = [clip1(v, lo, hi) for v, lo, hi
                       in zip(vals, self.mins, self.maxs)]

    def assign_one(self, i, v):
        v = float(v)
        if self.check_hitbounds:
            self.hit = v < self.mins[i] or v > self.maxs[i]
        self.values[i] = clip1(v, self.mins[i], self.maxs[i])

    def reset(self):
        self.assign_all(self.defaults)

    def copy(self):
        return copy.deepcopy(self)

    def abstract(self):
        rel = []
        for v, lo, hi in zip(self.values, self.mins, self.maxs):
            if v != v:
                rel.append("n")
            elif v == lo:
                rel.append("l")
            elif v == hi:
                rel.append("h")
            else:
                rel.append("i")
        return (self.check_bounds, self.check_hitbounds, self.accept_nan,
                self.hit, "".join(rel),
                "".join("f" if lo > -INF else "i" for lo in self.mins),
                "".join("f" if hi < INF else "i" for hi in self.maxs))


def model_of(real):
    """Model initialised by reading a freshly constructed real vector (used for
    the vectors owned by transforms, whose construction is hydrodiy's)."""
    m = VecModel([str(x) for x in real.names], list(real.mins),
                 list(real.maxs), list(real.defaults), real.check_bounds,
                 real.check_hitbounds, real.accept_nan)
    m.values = [float(x) for x in real.values]
    m.hit = bool(real.hitbounds)
    return m


# --------------------------------------------------------------------------
def lists_eq(a, b):
    a = list(a)
    b = list(b)
    return len(a) == len(b) and all(feqv(x, y) for x, y in zip(a, b))


def check_vec(real, m, where, opkind, full=True):
    def bad(inv, detail):
        raise Violation(inv, f"{where}: {detail}", opkind)
    if [str(x) for x in real.names] != m.names:
        bad("names_changed", f"names {list(real.names)} != {m.names}")
    if int(real.nval) != m.n:
        bad("names_changed", f"nval {real.nval} != {m.n}")
    if not lists_eq(real.mins, m.mins):
        bad("bounds_changed", f"mins {list(real.mins)} != model {m.mins}")
    if not lists_eq(real.maxs, m.maxs):
        bad("bounds_changed", f"maxs {list(real.maxs)} != model {m.maxs}")
    if not lists_eq(real.defaults, m.defaults):
        bad("defaults_changed",
            f"defaults {list(real.defaults)} != model {m.defaults}")
    rv = [float(x) for x in real.values]
    for v, lo, hi in zip(rv, m.mins, m.maxs):
        if v != v:
            if not m.accept_nan:
                bad("nan_stored", f"values {rv} hold NaN without accept_nan")
        elif v < lo or v > hi:
            bad("value_out_of_bounds", f"values {rv} outside [{m.mins}, "
                f"{m.maxs}]")
    if not lists_eq(rv, m.values):
        bad("values_differ", f"values {rv} != model {m.values}")
    if full:
        if bool(real.hitbounds) != m.hit:
            bad("hitbounds_wrong", f"hitbounds {real.hitbounds} != model "
                f"{m.hit} (values {rv})")
        flags = (bool(real.check_bounds), bool(real.check_hitbounds),
                 bool(real.accept_nan))
        mf = (m.check_bounds, m.check_hitbounds, m.accept_nan)
        if flags != mf:
            bad("flags_differ", f"(check_bounds, check_hitbounds, accept_nan)"
                f"={flags} != model {mf}")
        for nm, v in zip(m.names, m.values):
            if not feqv(real[nm], v) or not feqv(getattr(real, nm), v):
                bad("named_access_differs", f"{nm}: {real[nm]} != {v}")


def check_dict(d, m, where, opkind):
    def bad(detail):
        raise Violation("to_dict_differs", f"{where}: {detail}", opkind)
    if int(d["nval"]) != m.n or len(d["data"]) != m.n:
        bad(f"nval {d['nval']}")
    if bool(d["hitbounds"]) != m.hit:
        bad(f"hitbounds {d['hitbounds']} != {m.hit}")
    if (bool(d["check_bounds"]), bool(d["check_hitbounds"]),
            bool(d["accept_nan"])) != (m.check_bounds, m.check_hitbounds,
                                       m.accept_nan):
        bad("flags")
    for i, e in enumerate(d["data"]):
        if str(e["name"]) != m.names[i] or not feqv(e["value"], m.values[i]) \
                or not feqv(e["min"], m.mins[i]) \
                or not feqv(e["max"], m.maxs[i]) \
                or not feqv(e["default"], m.defaults[i]):
            bad(f"element {i}: {e} vs model ({m.names[i]}, {m.values[i]}, "
                f"{m.mins[i]}, {m.maxs[i]}, {m.defaults[i]})")


# --------------------------------------------------------------------------
def gen_mag(cs, lab):
    e = cs.between(lab + ".exp", -3, 6)
    return (1.0 + 9.0 * cs.unit(lab + ".man")) * 10.0 ** e


def margin(b, cs, lab):
    base = max(1e-6, abs(b) * 1e-6)
    k = cs.between(lab + ".k", 0, 9)
    return base * (10.0 ** k) * (1.0 + cs.unit(lab + ".u"))


def gen_value(cs, lo, hi, nan_w, lab="v"):
    """Value of a drawn class relative to [lo, hi]. Returns (value, class)."""
    classes = [("inside", 6)]
    if lo > -INF:
        classes += [("on_min", 3), ("below", 4)]
    if hi < INF:
        classes += [("on_max", 3), ("above", 4)]
    classes += [("pinf", 1), ("ninf", 1)]
    if nan_w:
        classes.append(("nan", nan_w))
    c = cs.weighted(lab + ".class", classes)
    if c == "inside":
        if lo > -INF and hi < INF:
            v = lo + cs.unit(lab + ".u") * (hi - lo)
            v = min(max(v, lo), hi)
        elif lo > -INF:
            v = lo + gen_mag(cs, lab)
        elif hi < INF:
            v = hi - gen_mag(cs, lab)
        else:
            v = gen_mag(cs, lab) * (1 if cs.flip(lab + ".sg", 50) else -1)
    elif c == "on_min":
        v = lo
    elif c == "on_max":
        v = hi
    elif c == "below":
        v = lo - margin(lo, cs, lab)
    elif c == "above":
        v = hi + margin(hi, cs, lab)
    elif c == "pinf":
        v = INF
    elif c == "ninf":
        v = -INF
    else:
        v = NAN
    return float(v), c


def gen_bounds(cs, n):
    mins, maxs, defaults = [], [], []
    for i in range(n):
        kind = cs.weighted(f"b{i}.kind", [("ff", 5), ("fi", 2), ("if", 2),
                                          ("ii", 2), ("eq", 1)])
        lo = gen_mag(cs, f"b{i}.lo") * (1 if cs.flip(f"b{i}.s", 50) else -1)
        if cs.flip(f"b{i}.zero", 15):
            lo = 0.0
        width = gen_mag(cs, f"b{i}.w")
        hi = lo + width
        if kind == "fi":
            hi = INF
        elif kind == "if":
            hi, lo = lo, -INF
        elif kind == "ii":
            lo, hi = -INF, INF
        elif kind == "eq":
            hi = lo
        mins.append(lo)
        maxs.append(hi)
        dk = cs.weighted(f"b{i}.dk", [("in", 4), ("lo", 1), ("hi", 1)])
        if dk == "lo" and lo > -INF:
            d = lo
        elif dk == "hi" and hi < INF:
            d = hi
        else:
            d, _ = gen_value(cs, lo, hi, 0, f"b{i}.d")
            d = clip1(d, lo, hi) if d == d else lo
            if d in (INF, -INF):
                d = lo if lo > -INF else (hi if hi < INF else 0.0)
        defaults.append(float(d))
    return mins, maxs, defaults


class Sim:
    def __init__(self, cs, log, ctx):
        self.cs = cs
        self.log = log
        self.ctx = ctx
        self.vecs = []       # [(real, model, id)]
        self.trs = []        # [(real, params model, constants model, id, cls)]
        self.tkw = {}
        self.fresh = {}
        self.checkpoints = []
        self.nid = 0
        self.caller_bufs = []   # buffers the harness passed in (may scribble)
        self.changed = False
        self.compared_after_change = False

    # ---- helpers -------------------------------------------------------
    def check_all(self, opkind):
        for real, m, vid in self.vecs:
            check_vec(real, m, f"vector#{vid}", opkind)
            check_dict(real.to_dict(), m, f"vector#{vid}.to_dict()", opkind)
            self.ctx.state(m.abstract())
        for real, pm, cm, tid, cls in self.trs:
            check_vec(real.params, pm, f"{cls}#{tid}.params", opkind)
            check_vec(real.constants, cm, f"{cls}#{tid}.constants", opkind)
        if self.changed:
            self.compared_after_change = True

    def scribble(self):
        """Overwrite buffers the harness handed to hydrodiy earlier."""
        for b in self.caller_bufs:
            if isinstance(b, np.ndarray):
                if b.dtype.kind == "f":
                    b[...] = -7.7e7
                else:
                    b[...] = "zz"
            elif isinstance(b, list):
                for i in range(len(b)):
                    b[i] = -7.7e7 if not isinstance(b[i], str) else "zz"
            elif isinstance(b, dict):
                for e in b.get("data", []):
                    e["value"] = -7.7e7
                    e["min"] = -7.7e7
                    e["max"] = -7.7e7
                    e["default"] = -7.7e7
                b["hitbounds"] = not b.get("hitbounds", False)
        self.caller_bufs = []

    def as_buf(self, vals, lab):
        """Hand values over as list / float64 array / 2-D array."""
        k = self.cs.draw(lab + ".buf", 3)
        if k == 0:
            b = list(vals)
        elif k == 1:
            b = np.array(vals, dtype=np.float64)
        else:
            b = np.array(vals, dtype=np.float64).reshape(1, -1)
        self.caller_bufs.append(b)
        return b

    def as_buf32(self, vals, lab):
        """float32 array of the values: returns (buffer, the float64 values it
        really holds)."""
        b = np.array(vals, dtype=np.float32)
        self.caller_bufs.append(b)
        return b, [float(x) for x in np.array(b, dtype=np.float64)]

    # ---- vector operations --------------------------------------------
    def op_new(self):
        from hydrodiy.data.containers import Vector
        cs = self.cs
        n = cs.weighted("n", [(2, 4), (1, 3), (3, 3), (4, 2), (0, 1)])
        start = cs.draw("name0", len(NAMES))
        names = [NAMES[(start + i) % len(NAMES)] for i in range(n)]
        mins, maxs, defaults = gen_bounds(cs, n)
        ckh = cs.flip("check_hitbounds", 60)
        acn = cs.flip("accept_nan", 35)
        ckb = True if ckh else not cs.flip("check_bounds_off", 15)
        bad = cs.weighted("reject", [(None, 12), ("dupnames", 1),
                                     ("defaults_out", 1), ("hit_nobounds", 1),
                                     ("max_lt_min", 1), ("nan_default", 1)])
        kw = dict(check_bounds=ckb, check_hitbounds=ckh, accept_nan=acn)
        a_names, a_def, a_min, a_max = list(names), list(defaults), \
            list(mins), list(maxs)
        if bad == "dupnames":
            if n < 2:
                bad = None
            else:
                a_names[1] = a_names[0]
        elif bad == "defaults_out":
            idx = [i for i in range(n) if mins[i] > -INF or maxs[i] < INF]
            if not idx:
                bad = None
            else:
                i = idx[0]
                a_def[i] = (mins[i] - margin(mins[i], cs, "m")) \
                    if mins[i] > -INF else (maxs[i] + margin(maxs[i], cs, "m"))
        elif bad == "hit_nobounds":
            kw["check_bounds"] = False
            kw["check_hitbounds"] = True
        elif bad == "max_lt_min":
            idx = [i for i in range(n) if mins[i] > -INF and maxs[i] < INF]
            if not idx:
                bad = None
            else:
                i = idx[0]
                a_max[i] = mins[i] - margin(mins[i], cs, "m")
        elif bad == "nan_default":
            if n == 0 or acn:
                bad = None
            else:
                a_def[0] = NAN
        # hand over buffers in drawn container forms
        form = cs.draw("form", 3)
        if form == 0:
            args = (a_names, a_def, a_min, a_max)
        elif form == 1:
            args = (np.array(a_names, dtype=str) if n else [],
                    np.array(a_def, dtype=np.float64),
                    np.array(a_min, dtype=np.float64),
                    np.array(a_max, dtype=np.float64))
        else:
            args = (tuple(a_names), a_def, np.array(a_min), a_max)
        # optional arguments left out: no bounds means unbounded, no defaults
        # means zero brought inside the bounds
        omit = cs.weighted("omit", [(None, 9), ("defaults", 3), ("mins", 1),
                                    ("maxs", 1), ("all", 1)]) \
            if bad is None else None
        if omit is not None:
            if omit in ("mins", "all"):
                mins = [-INF] * n
            if omit in ("maxs", "all"):
                maxs = [INF] * n
            if omit in ("defaults", "all"):
                defaults = [min(max(0.0, lo), hi) for lo, hi in zip(mins, maxs)]
            self.ctx.hit("probe.constructor_argument_omitted_" + omit)
        self.log.ev("new", names, mins, maxs, defaults, kw, bad, form, omit)
        style = cs.draw("callstyle", 3)
        try:
            if omit is not None:
                okw = dict(kw)
                if omit not in ("defaults", "all"):
                    okw["defaults"] = args[1]
                if omit not in ("mins", "all"):
                    okw["mins"] = args[2]
                if omit not in ("maxs", "all"):
                    okw["maxs"] = args[3]
                v = Vector(args[0], **okw)
            elif style == 1:
                v = Vector(args[0], defaults=args[1], mins=args[2],
                           maxs=args[3], **kw)
            elif style == 2:
                v = Vector(names=args[0], maxs=args[3], mins=args[2],
                           defaults=args[1], accept_nan=kw["accept_nan"],
                           check_hitbounds=kw["check_hitbounds"],
                           check_bounds=kw["check_bounds"])
            else:
                v = Vector(*args, **kw)
        except Exception as e:
            self.log.ev("new.raised", type(e).__name__)
            if bad is None:
                raise Violation("constructor_rejected_valid",
                                f"Vector({names}, {defaults}, {mins}, {maxs}, "
                                f"{kw}) raised {e!r}", "new")
            self.ctx.hit("fault.rejected_constructor")
            return
        if bad is not None:
            # the statement does not say such a construction must be refused;
            # if it is accepted the result must still satisfy the invariants
            # (it does not join the pool: no model describes it)
            self.ctx.hit("probe.questionable_constructor_accepted")
            try:
                vals = [float(x) for x in v.values]
                lo = [float(x) for x in v.mins]
                hi = [float(x) for x in v.maxs]
            except Exception as e:
                raise Violation("constructed_vector_unreadable",
                                f"Vector with {bad}: {e!r}", "new")
            for x, a, b in zip(vals, lo, hi):
                if x != x:
                    if not v.accept_nan:
                        raise Violation("nan_stored", f"Vector with {bad} was "
                                        f"accepted and holds NaN: {vals}",
                                        "new")
                elif x < a or x > b:
                    raise Violation("value_out_of_bounds",
                                    f"Vector with {bad} was accepted with "
                                    f"values {vals} outside [{lo}, {hi}]",
                                    "new")
            return
        for a in args:
            if isinstance(a, (list, np.ndarray)):
                self.caller_bufs.append(a)
        m = VecModel(names, mins, maxs, defaults, kw["check_bounds"],
                     kw["check_hitbounds"], kw["accept_nan"])
        self.nid += 1
        self.vecs.append((v, m, self.nid))

    def pick_vec(self):
        return self.vecs[self.cs.draw("which", len(self.vecs))]

    def op_set_values(self):
        v, m, vid = self.pick_vec()
        cs = self.cs
        nanw = 2 if m.accept_nan else 0
        vals, classes = [], []
        for i in range(m.n):
            x, c = gen_value(cs, m.mins[i], m.maxs[i], nanw, f"e{i}")
            vals.append(x)
            classes.append(c)
        if m.n and cs.flip("float32", 15) and \
                all(abs(x) < 1e30 or x != x or abs(x) == INF for x in vals):
            # single-precision caller buffer: what is assigned is the float32
            # rounding of the drawn values (classes relative to the bounds may
            # shift by one rounding; the model uses the values really passed)
            buf, vals = self.as_buf32(vals, "sv")
            classes = ["f32"] * len(vals)
            if any(lo - 1e-6 * max(1, abs(lo)) < x < lo or
                   hi < x < hi + 1e-6 * max(1, abs(hi))
                   for x, lo, hi in zip(vals, m.mins, m.maxs)):
                return      # within the tolerance band of a bound: not drawn
            self.ctx.hit("probe.float32_buffer_assigned")
        else:
            buf = self.as_buf(vals, "sv")
        self.log.ev("set_values", vid, vals, classes)
        try:
            v.values = buf
        except Exception as e:
            raise Violation("valid_assignment_rejected",
                            f"vector#{vid}.values = {vals} raised {e!r}",
                            "set_values")
        m.assign_all(vals)
        self.changed = True
        if any(c in ("below", "above") for c in classes):
            self.ctx.hit("probe.assignment_clipped")

    def op_set_one(self, how):
        v, m, vid = self.pick_vec()
        if m.n == 0:
            return
        cs = self.cs
        i = cs.draw("i", m.n)
        x, c = gen_value(cs, m.mins[i], m.maxs[i], 2 if m.accept_nan else 0)
        form = cs.draw("form", 7)
        if form == 3 and (x != x or abs(x) == INF or abs(x) < 1e30):
            # a single-precision scalar: what is assigned is its value
            with np.errstate(all="ignore"):
                xv = np.float32(x)
            x = float(xv)
        elif form == 4:
            xv = repr(x)                      # a number read from text
        elif form == 5 and x == x and abs(x) < 1e15 and x == int(x):
            xv = int(x)
        elif form == 6:
            xv = np.array(x, dtype=np.longdouble)[()]
        else:
            form = form if form < 3 else 0
            xv = x if form == 0 else (np.float64(x) if form == 1 else
                                      np.array(x))
        self.log.ev(how, vid, m.names[i], x, c, form)
        try:
            if how == "set_attr":
                setattr(v, m.names[i], xv)
            else:
                v[m.names[i]] = xv
        except Exception as e:
            raise Violation("valid_assignment_rejected",
                            f"vector#{vid}.{m.names[i]} = {x} raised {e!r}", how)
        m.assign_one(i, x)
        self.changed = True
        if c in ("below", "above"):
            self.ctx.hit("probe.assignment_clipped")

    def op_reset(self):
        v, m, vid = self.pick_vec()
        self.log.ev("reset", vid)
        try:
            v.reset()
        except Exception as e:
            raise Violation("reset_failed", f"vector#{vid}.reset() raised "
                            f"{e!r} (defaults {m.defaults}, accept_nan "
                            f"{m.accept_nan})", "reset")
        m.reset()
        self.changed = True

    def op_clone(self):
        v, m, vid = self.pick_vec()
        self.log.ev("clone", vid)
        try:
            c = v.clone()
        except Exception as e:
            raise Violation("clone_failed", f"vector#{vid}.clone() raised "
                            f"{e!r}; state {m.__dict__}", "clone")
        self.nid += 1
        self.vecs.append((c, m.copy(), self.nid))
        self.ctx.hit("probe.clone")
        if m.hit:
            self.ctx.hit("probe.clone_with_hit_set")
        if any(x != x for x in m.values):
            self.ctx.hit("probe.clone_holding_nan")

    def op_dict(self):
        from hydrodiy.data.containers import Vector
        v, m, vid = self.pick_vec()
        self.log.ev("dict_roundtrip", vid)
        d = v.to_dict()
        check_dict(d, m, f"vector#{vid}.to_dict()", "dict_roundtrip")
        d2 = copy.deepcopy(d)
        via_json = self.cs.flip("json", 30) and \
            all(abs(x) != INF and x == x for x in
                m.values + m.mins + m.maxs + m.defaults)
        if via_json:
            import json
            d2 = json.loads(json.dumps(
                d2, default=lambda o: o.item() if hasattr(o, "item") else str(o)))
        try:
            c = Vector.from_dict(d2)
        except Exception as e:
            raise Violation("from_dict_failed", f"from_dict(to_dict()) of "
                            f"vector#{vid} raised {e!r}", "dict_roundtrip")
        self.caller_bufs.append(d2)
        self.nid += 1
        self.vecs.append((c, m.copy(), self.nid))
        self.ctx.hit("probe.dict_roundtrip")
        if m.hit:
            self.ctx.hit("probe.dict_roundtrip_with_hit_set")

    def op_checkpoint(self):
        """Keep an exported dictionary (as returned, not copied) for later."""
        v, m, vid = self.pick_vec()
        d = v.to_dict()
        check_dict(d, m, f"vector#{vid}.to_dict()", "checkpoint")
        self.checkpoints.append((d, m.copy(), vid))
        if len(self.checkpoints) > 4:
            self.checkpoints.pop(0)
        self.log.ev("checkpoint", vid)

    def op_restore(self):
        """Rebuild a vector from a dictionary exported earlier: it describes
        the state at export time, whatever happened to the vector since."""
        from hydrodiy.data.containers import Vector
        if not self.checkpoints:
            return
        k = self.cs.draw("cp", len(self.checkpoints))
        d, m, vid = self.checkpoints.pop(k)
        self.log.ev("restore", vid)
        check_dict(d, m, f"dictionary exported earlier from vector#{vid}",
                   "restore")
        try:
            c = Vector.from_dict(d)
        except Exception as e:
            raise Violation("from_dict_failed", f"from_dict of a dictionary "
                            f"exported earlier from vector#{vid} raised {e!r}",
                            "restore")
        self.ctx.hit("probe.restore_from_earlier_export")
        # the caller owns the dictionary it was given and reuses it
        self.caller_bufs.append(d)
        if len(self.vecs) < 4:
            self.nid += 1
            self.vecs.append((c, m.copy(), self.nid))
        else:
            check_vec(c, m, "vector restored from an earlier export",
                      "restore")

    def op_reject(self):
        v, m, vid = self.pick_vec()
        cs = self.cs
        kinds = ["wrong_length", "unknown_key"]
        if not m.accept_nan and m.n > 0:
            kinds += ["nan_all", "nan_attr", "nan_key"]
        k = cs.choice("rk", kinds)
        self.log.ev("reject", vid, k)
        raised = False
        try:
            if k == "wrong_length":
                n2 = m.n + (1 if cs.flip("longer", 50) or m.n == 0 else -1)
                lo = m.mins[0] if m.n else 0.0
                v.values = self.as_buf([1.0] * n2, "rj")
            elif k == "unknown_key":
                # a key that is not an element name: a typo of a name, or the
                # name of something else the object has (attribute, property,
                # internal field) - assignment by key knows element names only
                near = []
                if m.n:
                    nm0 = m.names[cs.draw("i", m.n)]
                    near = [nm0.upper() if nm0.upper() != nm0 else nm0 + "_",
                            nm0 + " "]
                vecval = [clip1(0.5 * (m.mins[j] + m.maxs[j])
                                if np.isfinite(m.mins[j] + m.maxs[j]) else 0.25,
                                m.mins[j], m.maxs[j]) + 0.125
                          for j in range(m.n)]
                cands = [("__nokey__", 1.0), ("values", vecval),
                         ("_values", np.array(vecval)),
                         ("defaults", vecval), ("_defaults", np.array(vecval)),
                         ("mins", vecval), ("_mins", np.array(vecval)),
                         ("maxs", vecval), ("_maxs", np.array(vecval)),
                         ("hitbounds", True), ("_hitbounds", not m.hit),
                         ("names", ["zz"] * m.n), ("_names", ["zz"] * m.n),
                         ("nval", m.n + 1), ("_nval", m.n + 1),
                         ("check_hitbounds", False), ("accept_nan", True),
                         ("_check_hitbounds", False), ("_accept_nan", True),
                         (0, 1.0)] + [(x, 1.0) for x in near]
                key, val = cands[cs.draw("ukey", len(cands))]
                self.log.ev("reject.key", repr(key))
                v[key] = val
            elif k == "nan_all":
                # other elements get new in-bounds values, so that a partial
                # store before the rejection shows
                vals = [clip1(gen_value(cs, m.mins[j], m.maxs[j], 0,
                                        f"rj{j}")[0], m.mins[j], m.maxs[j])
                        for j in range(m.n)]
                vals[cs.draw("i", m.n)] = NAN
                # make the other elements different so a partial store shows
                v.values = self.as_buf(vals, "rj")
            elif k in ("nan_attr", "nan_key"):
                # NaN in any of the scalar forms an assignment accepts
                nanv = [NAN, np.float64(NAN), np.float32(NAN), "nan",
                        np.array(NAN), np.array(NAN, dtype=np.float32),
                        np.float16(NAN),
                        np.array(NAN, dtype=np.longdouble)[()]][
                            cs.draw("nanform", 8)]
                if k == "nan_attr":
                    setattr(v, m.names[cs.draw("i", m.n)], nanv)
                else:
                    v[m.names[cs.draw("i", m.n)]] = nanv
        except Exception as e:
            raised = True
            self.log.ev("reject.raised", type(e).__name__)
        self.ctx.hit("fault.rejected_assignment")
        if m.hit:
            self.ctx.hit("probe.rejected_while_hit_true")
        # raised or not: the state must be untouched (checked by check_all)
        self.log.ev("reject.done", raised)

    def op_drop(self):
        i = self.cs.draw("which", len(self.vecs))
        self.log.ev("drop", self.vecs[i][2])
        del self.vecs[i]

    # ---- transform operations -----------------------------------------
    def op_tnew(self):
        from hydrodiy.stat import transform
        cs = self.cs
        cls = cs.choice("cls", TRANSFORMS)
        kw = {}
        if self.trs and cs.flip("same_as_existing", 45):
            # a second instance built exactly like one that is already live
            prev = self.trs[cs.draw("prev", len(self.trs))]
            cls, kw = prev[4], dict(self.tkw.get(prev[3], {}))
            via = cs.flip("get_transform", 50)
            self.log.ev("tnew", cls, kw, via, "same_as_existing")
            t = transform.get_transform(cls, **kw) if via else \
                getattr(transform, cls)(**kw)
            self.nid += 1
            self.tkw[self.nid] = dict(kw)
            self.trs.append((t, self.fresh_model(t, "params", cls, kw),
                             self.fresh_model(t, "constants", cls, kw),
                             self.nid, cls))
            self.ctx.hit("probe.second_transform_with_same_constructor_args")
            return
        if cls in ("Log", "BoxCox2", "BoxCox1lam", "BoxCox1nu", "BoxCox2sym",
                   "Reciprocal") and cs.flip("mininu", 50):
            kw["mininu"] = 10.0 ** cs.between("mininu.e", -10, 0)
        if cls in ("BoxCox2", "BoxCox1lam", "BoxCox1nu", "BoxCox2sym") \
                and cs.flip("minilam", 40):
            kw["minilam"] = -3.0 + 3.5 * cs.unit("minilam.u")
        if cls == "Log" and cs.flip("base", 30):
            kw["base"] = cs.choice("basev", [10.0, 2.0, 3.0])
        via = cs.flip("get_transform", 50)
        if via and cs.flip("param_keywords", 45):
            return self.tnew_with_param_keywords(cls, kw)
        self.log.ev("tnew", cls, kw, via)
        if via:
            t = transform.get_transform(cls, **kw)
        else:
            t = getattr(transform, cls)(**kw)
        self.nid += 1
        self.tkw[self.nid] = dict(kw)
        self.trs.append((t, self.fresh_model(t, "params", cls, kw),
                         self.fresh_model(t, "constants", cls, kw),
                         self.nid, cls))

    def tnew_with_param_keywords(self, cls, kw):
        """get_transform(name, <constructor args>, <parameter / constant
        values>): the documented way of building a transform with parameter
        values; each value is an assignment by key on the fresh vectors."""
        from hydrodiy.stat import transform
        cs = self.cs
        ref = getattr(transform, cls)(**kw)
        pm = self.fresh_model(ref, "params", cls, kw)
        cm = self.fresh_model(ref, "constants", cls, kw)
        slots = [(pm, i) for i in range(pm.n)] + [(cm, i) for i in range(cm.n)]
        if not slots:
            return
        pkw = {}
        plan = []
        for j in range(cs.between("npkw", 1, min(2, len(slots)))):
            m, i = slots[cs.draw(f"slot{j}", len(slots))]
            if m.names[i] in pkw or m.names[i] in kw:
                continue
            x, c = gen_value(cs, m.mins[i], m.maxs[i], 1, f"pk{j}")
            pkw[m.names[i]] = x
            plan.append((m, i, x))
        self.log.ev("tnew", cls, kw, "param_keywords", pkw)
        self.ctx.hit("probe.get_transform_with_parameter_keywords")
        must_reject = any(x != x and not m.accept_nan for m, i, x in plan)
        try:
            with warnings.catch_warnings():
                warnings.simplefilter("ignore")
                t = transform.get_transform(cls, **kw, **pkw)
        except Exception as e:
            if must_reject:
                return
            raise Violation("valid_assignment_rejected",
                            f"get_transform({cls!r}, **{kw}, **{pkw}) raised "
                            f"{e!r}", "tnew")
        if must_reject:
            raise Violation("nan_stored", f"get_transform({cls!r}, **{kw}, "
                            f"**{pkw}) accepted NaN; params "
                            f"{list(map(float, t.params.values))} constants "
                            f"{list(map(float, t.constants.values))}", "tnew")
        for m, i, x in plan:
            m.assign_one(i, x)
        self.nid += 1
        self.tkw[self.nid] = dict(kw)
        self.trs.append((t, pm, cm, self.nid, cls))
        self.changed = True

    def fresh_model(self, t, which, cls, kw):
        """Model of a freshly constructed transform's vector.  The first
        instance of a (class, constructor arguments) pair in a run defines what
        a fresh instance looks like; every later instance built the same way
        must start in that same state (a constructor must not hand out state
        left by another instance)."""
        key = (cls, tuple(sorted(kw.items())), which)
        m = model_of(getattr(t, which))
        ref = self.fresh.get(key)
        if ref is None:
            self.fresh[key] = m.copy()
            return m
        return ref.copy()

    def pick_tr(self):
        return self.trs[self.cs.draw("twhich", len(self.trs))]

    def op_tset(self):
        t, pm, cm, tid, cls = self.pick_tr()
        cs = self.cs
        targets = []
        if pm.n:
            targets += ["p_attr", "p_key", "p_all", "p_vec_key"]
        if cm.n:
            targets += ["c_attr", "c_key", "c_all"]
        if not targets:
            return
        how = cs.choice("how", targets)
        m = pm if how[0] == "p" else cm
        realvec = t.params if how[0] == "p" else t.constants
        nanw = 1 if m.accept_nan else 0
        if how.endswith("all"):
            vals = [gen_value(cs, m.mins[i], m.maxs[i], nanw, f"e{i}")[0]
                    for i in range(m.n)]
            self.log.ev("tset", tid, cls, how, vals)
            try:
                realvec.values = self.as_buf(vals, "tv")
            except Exception as e:
                raise Violation("valid_assignment_rejected",
                                f"{cls}#{tid} {how} = {vals} raised {e!r}",
                                "tset")
            m.assign_all(vals)
        else:
            i = cs.draw("i", m.n)
            x, c = gen_value(cs, m.mins[i], m.maxs[i], nanw)
            self.log.ev("tset", tid, cls, how, m.names[i], x)
            try:
                if how.endswith("attr"):
                    setattr(t, m.names[i], x)
                elif how == "p_vec_key":
                    t.params[m.names[i]] = x
                else:
                    t[m.names[i]] = x
            except Exception as e:
                raise Violation("valid_assignment_rejected",
                                f"{cls}#{tid} {how} {m.names[i]} = {x} raised "
                                f"{e!r}", "tset")
            m.assign_one(i, x)
        self.changed = True

    def op_treset(self):
        t, pm, cm, tid, cls = self.pick_tr()
        self.log.ev("treset", tid, cls)
        try:
            t.reset()
        except Exception as e:
            raise Violation("reset_failed", f"{cls}#{tid}.reset() raised {e!r}",
                            "treset")
        pm.reset()
        self.changed = True

    def op_tread(self):
        t, pm, cm, tid, cls = self.pick_tr()
        cs = self.cs
        call = cs.choice("call", ["forward", "backward", "jacobian",
                                  "backward_censored", "params_sample",
                                  "params_logprior", "str", "forward",
                                  "params_sample"])
        n = cs.between("nx", 1, 5)
        if cls == "Softmax":
            x = np.array([[0.1 + 0.05 * i for i in range(n)]]) / (n + 1)
        else:
            x = np.array([0.05 + cs.unit(f"x{i}") * 3.0 for i in range(n)])
            if cs.flip("negx", 20):
                x = -x
        seed = cs.draw("npseed", 1 << 20)
        self.log.ev("tread", tid, cls, call, x.tolist(), seed)
        snap = (list(map(float, t.params.values)),
                list(map(float, t.constants.values)))
        raised = None
        with warnings.catch_warnings(), np.errstate(all="ignore"):
            warnings.simplefilter("ignore")
            np.random.seed(seed)
            try:
                if call == "params_sample":
                    t.params_sample(cs.between("ns", 1, 20))
                elif call == "params_logprior":
                    t.params_logprior()
                elif call == "str":
                    str(t)
                    str(t.params)
                elif call == "backward_censored":
                    t.backward_censored(x, censor=0.01)
                else:
                    getattr(t, call)(x)
            except Exception as e:
                raised = type(e).__name__
        self.log.ev("tread.done", raised)
        self.ctx.hit("probe.readonly_call")
        if any(abs(b) == INF for b in pm.mins + pm.maxs):
            self.ctx.hit("probe.readonly_call_infinite_bounds")
        if call == "params_sample" and raised is None:
            self.ctx.hit("probe.params_sample_ok")
        # model unchanged: check_all compares params/constants/bounds

    def op_tdrop(self):
        i = self.cs.draw("twhich", len(self.trs))
        self.log.ev("tdrop", self.trs[i][3])
        del self.trs[i]


OPNAMES = {"new": ("op_new", ()), "set_values": ("op_set_values", ()),
           "set_attr": ("op_set_one", ("set_attr",)),
           "set_item": ("op_set_one", ("set_item",)),
           "reset": ("op_reset", ()), "clone": ("op_clone", ()),
           "dict_roundtrip": ("op_dict", ()), "reject": ("op_reject", ()),
           "checkpoint": ("op_checkpoint", ()), "restore": ("op_restore", ())}

OPS = [  # (kind, weight, needs)
    ("new", 8, None), ("set_values", 14, "v"), ("set_attr", 9, "v"),
    ("set_item", 9, "v"), ("reset", 5, "v"), ("clone", 7, "v"),
    ("dict_roundtrip", 7, "v"), ("reject", 7, "v"), ("drop", 2, "v"),
    ("checkpoint", 4, "v"), ("restore", 4, "v"),
    ("scribble", 5, None),
    ("tnew", 5, None), ("tset", 9, "t"), ("treset", 2, "t"),
    ("tread", 14, "t"), ("tdrop", 1, "t"),
]


def run(cs, log, ctx):
    sim = Sim(cs, log, ctx)
    with cs.span("config"):
        nsteps = cs.between("nsteps", 1, 40)
        maxv = cs.between("maxvecs", 1, 4)
        maxt = cs.between("maxtrs", 0, 3)
        enabled = {}
        for kind, w, _ in OPS:
            # swarm: each kind is switched off in ~20% of runs
            enabled[kind] = not cs.flip("off." + kind, 20)
        enabled["new"] = True
        log.ev("config", nsteps, maxv, maxt,
               sorted(k for k, v in enabled.items() if v))
    strict = False
    with cs.span("env"):
        # process-wide numerical settings a container must not depend on:
        # floating-point anomalies trapped, warnings turned into errors
        strict = cs.flip("strict_fp", 25)
        log.ev("env.strict_fp", strict)
    sim.strict = strict
    with warnings.catch_warnings():
        warnings.simplefilter("ignore")
        for step in range(nsteps):
            with cs.span("step"):
                avail = []
                for kind, w, needs in OPS:
                    if not enabled[kind]:
                        continue
                    if needs == "v" and not sim.vecs:
                        continue
                    if needs == "t" and not sim.trs:
                        continue
                    if kind in ("new", "clone", "dict_roundtrip") and \
                            len(sim.vecs) >= maxv and kind != "new":
                        continue
                    if kind == "new" and len(sim.vecs) >= maxv:
                        if sim.vecs:
                            continue
                    if kind == "tnew" and len(sim.trs) >= maxt:
                        continue
                    avail.append((kind, w))
                if not avail:
                    avail = [("new", 1)]
                kind = cs.weighted("op", avail)
                log.kind(kind)
                ctx.hit("steps")
                vector_op = kind in ("new", "set_values", "set_attr",
                                     "set_item", "reset", "clone",
                                     "dict_roundtrip", "reject", "checkpoint",
                                     "restore")
                if strict and vector_op:
                    ctx.hit("fault.fp_traps_and_warnings_as_errors")
                    with np.errstate(all="raise"), warnings.catch_warnings():
                        warnings.simplefilter("error")
                        getattr(sim, OPNAMES[kind][0])(*OPNAMES[kind][1])
                    sim.check_all(kind)
                    continue
                if kind == "new":
                    sim.op_new()
                elif kind == "set_values":
                    sim.op_set_values()
                elif kind == "set_attr":
                    sim.op_set_one("set_attr")
                elif kind == "set_item":
                    sim.op_set_one("set_item")
                elif kind == "reset":
                    sim.op_reset()
                elif kind == "clone":
                    sim.op_clone()
                elif kind == "dict_roundtrip":
                    sim.op_dict()
                elif kind == "checkpoint":
                    sim.op_checkpoint()
                elif kind == "restore":
                    sim.op_restore()
                elif kind == "reject":
                    sim.op_reject()
                elif kind == "drop":
                    sim.op_drop()
                elif kind == "scribble":
                    log.ev("scribble", len(sim.caller_bufs))
                    if sim.caller_bufs:
                        ctx.hit("fault.caller_buffer_overwritten")
                    sim.scribble()
                elif kind == "tnew":
                    sim.op_tnew()
                elif kind == "tset":
                    sim.op_tset()
                elif kind == "treset":
                    sim.op_treset()
                elif kind == "tread":
                    sim.op_tread()
                elif kind == "tdrop":
                    sim.op_tdrop()
                sim.check_all(kind)
    if sim.changed and sim.compared_after_change:
        ctx.hit("nontrivial")


def warmup():
    import pandas  # noqa: F401
    import scipy.stats  # noqa: F401
    from hydrodiy.data import containers  # noqa: F401
    from hydrodiy.stat import transform, sutils  # noqa: F401
