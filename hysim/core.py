"""Core of the simulator: one seeded/replayed choice stream, event log, digests.

Every decision of a simulated run (configuration knobs, next operation, argument
values, which actor the scheduler resumes, where a fault lands) is an integer
draw from one ChoiceStream.  In generation mode the stream is backed by a PRNG
derived from (VERIF_SEED, property, run index); every draw is recorded inside
nested spans.  In replay mode the stream is backed by a recorded span tree; a
draw that finds its span exhausted, or a recorded value out of range, yields the
simplest value.  Replay is therefore a pure function of (tree, code) and any
edited tree is still a valid run, which is what the minimiser relies on.
"""
import hashlib
import math
import os
import random
import struct

import numpy as np


class Violation(Exception):
    """A property violation found by an oracle (never a harness problem)."""

    def __init__(self, invariant, detail="", opkind=""):
        super().__init__(f"{invariant}: {detail}")
        self.invariant = invariant
        self.detail = detail
        self.opkind = opkind

    @property
    def signature(self):
        return f"{self.invariant}@{self.opkind}"


class Inconclusive(Exception):
    """Run hit a cap (steps / watchdog): neither pass nor violation."""


def seed_for(seed, prop, run_index):
    h = hashlib.sha256(f"{seed}/{prop}/{run_index}".encode()).digest()
    return int.from_bytes(h[:8], "big")


class _Span:
    __slots__ = ("label", "draws", "subs", "di", "si")

    def __init__(self, label, draws=None, subs=None):
        self.label = label
        self.draws = draws if draws is not None else []
        self.subs = subs if subs is not None else []
        self.di = 0
        self.si = 0

    def to_json(self):
        return {"l": self.label, "d": [list(d) for d in self.draws],
                "s": [s.to_json() for s in self.subs]}

    @staticmethod
    def from_json(js):
        return _Span(js.get("l", ""), [list(d) for d in js.get("d", [])],
                     [_Span.from_json(s) for s in js.get("s", [])])


class ChoiceStream:
    """Seeded (recording) or replayed stream of bounded integer draws."""

    def __init__(self, seed=None, tree=None):
        self.replay = tree is not None
        if self.replay:
            self.root = _Span.from_json(tree)
        else:
            self.root = _Span("run")
            self.rng = random.Random(seed)
        self.stack = [self.root]
        self.ndraws = 0

    # -- spans -----------------------------------------------------------
    def span(self, label):
        return _SpanCtx(self, label)

    def _enter(self, label):
        cur = self.stack[-1]
        if self.replay:
            if cur.si < len(cur.subs):
                sp = cur.subs[cur.si]
            else:
                sp = _Span(label)          # exhausted: empty span
                cur.subs.append(sp)
            cur.si += 1
            sp.label = label
            # everything recorded beyond what this replay consumes is dropped
            # at exit, so the tree written back is exactly what was used
        else:
            sp = _Span(label)
            cur.subs.append(sp)
        self.stack.append(sp)

    def _exit(self):
        sp = self.stack.pop()
        if self.replay:
            del sp.draws[sp.di:]
            del sp.subs[sp.si:]

    # -- draws -----------------------------------------------------------
    def draw(self, label, n):
        """Integer in [0, n). n >= 1."""
        if n <= 1:
            return 0
        self.ndraws += 1
        cur = self.stack[-1]
        if self.replay:
            if cur.di < len(cur.draws):
                d = cur.draws[cur.di]
                v = d[2]
                if not isinstance(v, int) or v < 0:
                    v = 0
                if v >= n:
                    v = n - 1
                d[0], d[1], d[2] = label, n, v
            else:
                v = 0
                cur.draws.append([label, n, 0])
            cur.di += 1
            return v
        v = self.rng.getrandbits(max(1, (n - 1).bit_length() + 16)) % n
        cur.draws.append([label, n, v])
        return v

    def flip(self, label, num, den=100):
        """True with probability num/den; False is the simple value."""
        return self.draw(label, den) >= den - num if num > 0 else False

    def choice(self, label, seq):
        return seq[self.draw(label, len(seq))]

    def weighted(self, label, pairs):
        """pairs: [(item, weight int)], first item is the simple value."""
        tot = sum(w for _, w in pairs)
        v = self.draw(label, tot)
        for item, w in pairs:
            if v < w:
                return item
            v -= w
        return pairs[-1][0]

    def between(self, label, lo, hi):
        """Integer in [lo, hi] inclusive; lo is the simple value."""
        return lo + self.draw(label, hi - lo + 1)

    def unit(self, label):
        """Float in [0,1) with 32 bits."""
        return self.draw(label, 1 << 32) / float(1 << 32)

    def finish(self):
        if self.replay:
            while len(self.stack) > 1:
                self._exit()
            del self.root.draws[self.root.di:]
            del self.root.subs[self.root.si:]
        return self.root.to_json()


class _SpanCtx:
    __slots__ = ("cs", "label")

    def __init__(self, cs, label):
        self.cs = cs
        self.label = label

    def __enter__(self):
        self.cs._enter(self.label)
        return self.cs

    def __exit__(self, *a):
        self.cs._exit()
        return False


# ---------------------------------------------------------------------------
# Event log: a running sha256 over every decision/outcome, optional trace.
# Never draws from the stream, never reads a clock.
# ---------------------------------------------------------------------------
class EventLog:
    def __init__(self, keep=False):
        self.h = hashlib.sha256()
        self.keep = keep
        self.lines = []
        self.n = 0
        self.kinds = []      # op-kind sequence (for interleaving measure)
        self.progress_fd = None   # last op kind is mirrored here (crash info)

    def ev(self, *items):
        s = repr(items)
        self.h.update(s.encode("utf-8", "backslashreplace"))
        self.h.update(b"\n")
        self.n += 1
        if self.keep:
            self.lines.append(s if len(s) < 600 else s[:600] + "...")

    def kind(self, k):
        self.kinds.append(k)
        if self.progress_fd is not None:
            try:
                os.pwrite(self.progress_fd,
                          (str(k)[:120] + "\n").ljust(128).encode(), 0)
            except OSError:
                pass

    def digest(self):
        return self.h.hexdigest()[:24]


# ---------------------------------------------------------------------------
# Value digests (bitwise, NaN payload normalised)
# ---------------------------------------------------------------------------
def fbits(x):
    """Canonical bit pattern of a float (all NaNs equal)."""
    x = float(x)
    if x != x:
        return "nan"
    return struct.pack(">d", x).hex()


def feq(a, b):
    """Bit equality of floats with NaN == NaN, and -0.0 != 0.0."""
    a = float(a)
    b = float(b)
    if a != a or b != b:
        return a != a and b != b
    return struct.pack(">d", a) == struct.pack(">d", b)


def feqv(a, b):
    """Numeric equality with NaN == NaN (0.0 == -0.0)."""
    a = float(a)
    b = float(b)
    if a != a or b != b:
        return a != a and b != b
    return a == b


def arr_digest(a):
    a = np.asarray(a)
    if a.dtype.kind == "f":
        c = np.ascontiguousarray(a).copy()
        c[np.isnan(c)] = np.nan
        payload = c.tobytes()
    elif a.dtype.kind == "O":
        payload = repr(a.tolist()).encode()
    else:
        payload = np.ascontiguousarray(a).tobytes()
    h = hashlib.sha256()
    h.update(str(a.dtype.str).encode())
    h.update(repr(a.shape).encode())
    h.update(payload)
    return h.hexdigest()[:16]


def short(x, n=200):
    s = repr(x)
    return s if len(s) <= n else s[:n] + "..."
