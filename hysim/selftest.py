"""./vcheck selftest [props...] - determinism proof on a larger sample:
every sampled run index is executed (i) in this interpreter, (ii) in this
interpreter again, (iii) in fresh interpreters under two other hash seeds;
all event-log digests must agree."""
import os
import sys


def main(argv):
    from . import runner, build
    build.activate("plain")
    runner.quiet_fd1()
    props = argv or ["C12", "C19", "C09", "C13", "C18"]
    seed = int(os.environ.get("VERIF_SEED") or 0)
    n = int(os.environ.get("VERIF_SELFTEST_N") or 48)
    bad = 0
    for p in props:
        idxs = list(range(0, n * 7, 7)) if p != "C18" else list(range(0, 12))
        a = {i: runner.execute_isolated(p, seed, i)["digest"] for i in idxs}
        b = {i: runner.execute_isolated(p, seed, i)["digest"] for i in idxs}
        c = runner.fresh_digests(p, seed, idxs, "quick", hashseed="3")
        d = runner.fresh_digests(p, seed, idxs, "quick", hashseed="12345")
        mism = [i for i in idxs
                if not (a[i] == b[i] == c[str(i)][0] == d[str(i)][0])]
        runner.say(f"selftest {p}: {len(idxs)} runs x 4 executions, "
                   f"mismatches={mism}")
        bad += len(mism)
    return 2 if bad else 0
