#!/bin/sh
# Offline setup: build the extension modules of the working tree with gcc
# (plain and sanitised flavours) into /verif/.build. Every check repeats this
# step itself (cached by a hash of the sources), so setup only warms the cache.
cd "$(dirname "$0")" || exit 2
/venv/bin/python -m hysim.build plain asan || exit 2
echo "setup ok"
