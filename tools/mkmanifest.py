#!/venv/bin/python
"""Regenerate /verif/MANIFEST.json from the tables below (keeps it valid)."""
import json
from pathlib import Path

VERIF = Path(__file__).resolve().parent.parent

BUILT = ["C05", "C09", "C12", "C13", "C18", "C19"]

CHECKS = {
    "C05": dict(
        engine="D: allocation-fault shim + sanitised child sessions",
        technique="deterministic fault injection: exhaustive allocation-failure masks on the kernels' malloc seam, plus seeded session simulation replayed under ASan/UBSan",
        category="fault_enumeration",
        text="Every failure mask over the allocation sites reachable from the Python API (2^7 for crps, 2 for dscore, k-th-failure sweeps over mixed sessions) is enumerated against the real kernels rebuilt from the working tree under ASan/UBSan; seeded sessions of boundary-shaped calls with reused buffers run in sanitised children. Exhaustive in the fault dimension, sampled in the input dimension.",
        note="Trusted: gcc ASan/UBSan, the Cython-generated wrappers (regenerated only when shipped), the shim that replaces malloc/free in c_crps.c and c_dscore.c. Uninitialised reads are not visible.",
        ref="DESIGN.md 4/C05"),
    "C09": dict(
        engine="A: CSV store histories on a simulated workspace",
        technique="deterministic simulation with fault injection: seeded operation histories (write/overwrite/read/archive/chdir/restart/clock jumps, disk-full during a write via a file-size limit) on a workspace with clock, user and cwd seams, checked against a reference store model",
        category="exploration",
        text="Seeded histories of a simulated analyst process over a real scratch directory, with the clock, user-name and cwd seams owned by the simulator; every read is compared with a dict model of the store. Sampled, not exhaustive.",
        note="Trusted: pandas, zipfile; the model's notion of float equality at the printed precision. Disk-full faults (RLIMIT_FSIZE in the run process) hit plain and compressed writes; a faulted write may raise or must read back, the next clean write must read back. No crash injection (the property promises nothing about torn files).",
        ref="DESIGN.md 4/C09"),
    "C12": dict(
        engine="A: operation-sequence machine with reference model",
        technique="deterministic simulation: seeded operation histories over a pool of live vectors/transforms with caller-buffer aliasing faults, refinement-checked step by step against an executable model",
        category="exploration",
        text="Seeded histories (1-40 operations, swarm knobs) over pools of real Vector and Transform objects; after every step every live object is compared with a model written from the property statement; rejected operations and overwritten caller buffers are the injected faults. Sampled; violations are minimised to a replay file confirmed in a fresh interpreter.",
        note="Trusted: the 60-line VecModel; values are inside, on, or >=1e-6 outside a bound as the quantifier says; 0.0 == -0.0.",
        ref="DESIGN.md 4/C12"),
    "C13": dict(
        engine="A: grid/catchment persistence histories",
        technique="deterministic simulation with fault injection: seeded persistence histories (save/overwrite/load/load into a live grid/foreign byte order/clone/clip/dict/restart, disk-full during a save via a file-size limit, refused loads of short/long/missing files) on a simulated workspace, refinement-checked against a byte-level grid model",
        category="exploration",
        text="Seeded histories of a simulated process saving, overwriting, reloading, cloning, clipping and exporting grids and catchments on a real scratch directory; every load/clone/clip/from_dict is compared with a byte-level model; stale sibling files, restarts and foreign byte order are the injected environment conditions.",
        note="Trusted: numpy raw I/O, the model's arithmetic for clip cell centres. Disk-full faults (RLIMIT_FSIZE in the run process) hit header and data writes: a faulted save may raise or must load back, the next clean save must load back. A torn pair left by a failed save is never read through the model (no atomicity is claimed by the property).",
        ref="DESIGN.md 4/C13"),
    "C18": dict(
        engine="C: long-lived session simulator",
        technique="deterministic simulation: seeded long-lived sessions over a shared argument pool with aliasing, interleaved re-issue and a second session in a fresh interpreter; snapshot and repeatability oracles over the recorded history",
        category="exploration",
        text="Seeded sessions of 100-300 calls over a persistent pool of arrays, views, pandas objects, grids and catchments; arguments are snapshotted around every call (all pool members, canaries included) and calls are re-issued later with the same seed; a second session in a fresh interpreter must agree per call.",
        note="Trusted: the snapshot/digest code; cross-process float comparison falls back to 1e-13 relative. A function that is consistently wrong is invisible.",
        ref="DESIGN.md 4/C18"),
    "C19": dict(
        engine="B: fleet scheduler (baton-passing threads, virtual clock, SimFS)",
        technique="deterministic simulation with fault injection: master + batch workers as scheduled actors over a simulated shared file system and virtual clock; seeded interleavings, crashes, restarts, delays, duplicates; history checked against a partition/enumeration model",
        category="exploration",
        text="The deployment hyruns is written for, simulated in one process: a master saving an OptionManager while 1-8 workers load it and take their batches, every file operation and sleep a scheduling point, crashes/restarts/delays/duplicates injected from the seed; managers, batches and the recorded history are checked against a small model. Sampled; violations minimised to a replay file.",
        note="Trusted: the scheduler and file proxy (process-crash semantics with userspace buffering; no power loss), the arithmetic partition model.",
        ref="DESIGN.md 4/C19"),
}

NA = {
    "C01": "pure function of (transform class, parameters, x): no schedule, clock, file, fault or history enters it; deciding it is input generation against an arithmetic oracle, which is not simulation (DESIGN.md 2, 4/C01)",
    "C02": "pure function of (class, parameters, x); finite-difference comparison over sampled arguments is not simulation (DESIGN.md 4/C02)",
    "C03": "pure function of (obs, ens); the kernel's allocations are covered under C05, the arithmetic identity has no simulated dimension (DESIGN.md 4/C03)",
    "C04": "pure functions of the series, transform parameters and options (DESIGN.md 4/C04)",
    "C06": "for a given grid, outlet and inlets the result is a pure function; the history-dependent slice (re-delineation on a live catchment) is exercised under C18/C13 (DESIGN.md 4/C06)",
    "C07": "pure arithmetic on (geometry, cell number or point) (DESIGN.md 4/C07)",
    "C08": "pure functions of (index, inputs, operator, maxnan); 'conservation' is an identity on one array, not across a system history (DESIGN.md 4/C08)",
    "C10": "pure functions of the data and, where random, of the RNG stream; seed-repeatability rides in C18 (DESIGN.md 4/C10)",
    "C11": "pure function of (flow grid, field); the side-effect clause 'inputs not altered' is exercised under C18 (DESIGN.md 4/C11)",
    "C14": "pure function of (series, period, flags); time zone/resolution are argument configuration, not environment (DESIGN.md 4/C14)",
    "C15": "pure function of (polygon, points); the reusable answer buffer is in C18's catalogue (DESIGN.md 4/C15)",
    "C16": "pure functions of (cell set, grids, points) (DESIGN.md 4/C16)",
    "C17": "pure functions of (coefficients, mean, initial value, series); the lag buffer lives inside one call (DESIGN.md 4/C17)",
    "C20": "pure functions of their arguments and the RNG stream; repeatability and untouched inputs ride in C18 (DESIGN.md 4/C20)",
}

PENDING = "claimed in DESIGN.md; its simulation engine is not registered yet in this commit"


def main():
    checks = []
    for pid in sorted(CHECKS):
        if pid not in BUILT:
            continue
        c = CHECKS[pid]
        checks.append({
            "property_id": pid,
            "quick_cmd": f"timeout 1500 ./vcheck {pid} --tier quick",
            "thorough_cmd": f"timeout 14000 ./vcheck {pid} --tier thorough",
            "evidence_file": f"/verif/evidence/{pid}.json",
            "replay_cmd_template": "./vcheck replay {path}",
            "engine": c["engine"],
            "level_claimed": {"category": c["category"], "text": c["text"],
                              "design_ref": c["ref"]},
            "level_note": c["note"],
            "technique": c["technique"],
        })
    na = [{"property_id": k, "reason": v} for k, v in sorted(NA.items())]
    for pid in sorted(CHECKS):
        if pid not in BUILT:
            na.append({"property_id": pid, "reason": PENDING})
    na.sort(key=lambda d: d["property_id"])
    man = {
        "version": 1,
        "setup_cmd": "./setup.sh",
        "hooks": {
            "guard": "HYDRODIY_VERIF",
            "enable": "no hooks: every seam (open/exists, time, datetime, getuser, malloc via the harness's own -D build) is taken from outside /repo; HYDRODIY_VERIF is reserved and unused",
            "baseline_off_cmd": "cd /repo && /venv/bin/python -m pytest -ra -q -p no:cacheprovider --timeout=900 --continue-on-collection-errors",
            "source_commits": [],
            "add_only": True,
        },
        "engines": [
            {"name": "hysim", "path": "/verif/hysim",
             "serves_properties": [p for p in sorted(CHECKS) if p in BUILT],
             "kind_free_text": "deterministic simulator written for this repository: one ChoiceStream (seeded or replayed span tree) decides inputs, schedules and faults; engines A (operation histories vs model), B (fleet scheduler with virtual clock and simulated file layer), C (session simulator), D (allocation-fault shim + sanitised children); own minimiser and replay files"},
        ],
        "checks": checks,
        "not_applicable": na,
        "notes": "Technique: deterministic simulation with fault injection. Exit codes: 0 held, 1 VIOLATION (replay confirmed in a fresh interpreter), 2 harness problem (no verdict). VERIF_SEED and VERIF_TIER are honoured. Extensions are rebuilt with gcc from VERIF_REPO (default /repo) on every check. Genuine defects repaired in /repo are listed in known_findings.json under 'fixed'.",
    }
    (VERIF / "MANIFEST.json").write_text(json.dumps(man, indent=1) + "\n")


if __name__ == "__main__":
    main()
