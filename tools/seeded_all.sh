#!/bin/sh
# Development-time sensitivity sweep: applies every seeded change to /repo in turn, runs the quick check of its
# property, records caught/missed with the first signature, and restores /repo. Never registered as a check.
cd /verif || exit 2
out=/verif/seeded/RESULTS.txt
: > $out.tmp
for d in seeded/*/; do
  id=$(basename $d); prop=$(echo $id | cut -c1-3)
  [ -f $d/patch.diff ] || continue
  cd /repo; git diff --quiet || { echo "repo dirty"; exit 2; }
  if ! git apply $OLDPWD/$d/patch.diff 2>/dev/null; then echo "$id NOAPPLY" >> $out.tmp; cd /verif; continue; fi
  cd /verif
  extra=""; [ "$prop" = "C18" ] && extra="--runs 240"
  res=$(VERIF_EVIDENCE_DIR=/tmp/hyverif-evidence-scratch ./vcheck $prop --selfcheck 0 $extra 2>&1 | grep -v "^KNOWN")
  rc=$(echo "$res" | grep -o "rc=[0-9]*" | tail -1)
  sig=$(echo "$res" | grep -o "signature=[^ ]*" | head -1)
  nv=$(echo "$res" | grep -o "violations=[0-9]*" | tail -1)
  harn=$(echo "$res" | grep -c "HARNESS-ERROR")
  echo "$id $rc $nv $sig harness_errors=$harn" >> $out.tmp
  cd /repo && git checkout -- . ; cd /verif
done
mv $out.tmp $out; cat $out
