#!/bin/sh
# Development-time sensitivity sweep: applies every seeded change in turn to the tree named by VERIF_REPO (default
# /repo; a git checkout), runs the quick check of its property, records caught/missed with the first signature, and
# restores the tree. Never registered as a check. Meant to be run from a snapshot:
#   vp run --with-repo --timeout 6h -- sh -c 'VERIF_REPO=$VP_RUN_REPO tools/seeded_all.sh'
root=$(cd "$(dirname "$0")/.." && pwd)
repo=${VERIF_REPO:-/repo}
cd $root || exit 2
out=$root/seeded/RESULTS.txt
# SEEDED_IDS="id1 id2 ..." restricts the sweep (result then goes to seeded/RESULTS.subset.txt)
dirs="seeded/*/"
if [ -n "$SEEDED_IDS" ]; then out=$root/seeded/RESULTS.subset.txt; dirs=""; for i in $SEEDED_IDS; do dirs="$dirs seeded/$i/"; done; fi
: > $out.tmp
for d in $dirs; do
  id=$(basename $d); prop=$(echo $id | cut -c1-3)
  [ -f $root/$d/patch.diff ] || continue
  git -C $repo diff --quiet || { echo "repo dirty"; exit 2; }
  if ! git -C $repo apply $root/$d/patch.diff 2>/dev/null; then echo "$id NOAPPLY" >> $out.tmp; continue; fi
  extra=""; [ "$prop" = "C18" ] && extra="--runs 240"
  res=$(VERIF_REPO=$repo VERIF_EVIDENCE_DIR=/tmp/hyverif-evidence-scratch ./vcheck $prop --selfcheck 0 $extra 2>&1 | grep -v "^KNOWN")
  rc=$(echo "$res" | grep -o "rc=[0-9]*" | tail -1)
  sig=$(echo "$res" | grep -o "signature=[^ ]*" | head -1)
  nv=$(echo "$res" | grep -o "violations=[0-9]*" | tail -1)
  harn=$(echo "$res" | grep -c "HARNESS-ERROR")
  echo "$id $rc $nv $sig harness_errors=$harn" >> $out.tmp
  git -C $repo checkout -- .
done
mv $out.tmp $out; cat $out
