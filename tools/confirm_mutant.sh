#!/bin/sh
# usage: confirm_mutant.sh <wtname> <seeded-id>
# Confirms in the scratch worktree /tmp/wt/<wtname>: patch applies on a clean checkout, demo passes without and fails
# with the change, every baseline-passing test still passes with the change. On success stores /verif/seeded/<id>/.
n="$1"; id="$2"; wt=/tmp/wt/$n; out=$wt/_out
[ -f $out/patch.diff ] || { echo "no patch"; exit 2; }
cd $wt || exit 2
rm -rf src/hydrodiy/io/tests/run_scripts
git checkout -q -- . 2>/dev/null
cp /repo/src/*.so $wt/src/    # extensions matching the current /repo sources
git apply --check $out/patch.diff || { echo "FAIL: patch does not apply on clean tree"; exit 1; }
if grep -q '^+++ .*\.[ch]$' $out/patch.diff; then ./rebuild_ext.sh >/dev/null 2>&1 || { echo "FAIL: C build (clean)"; exit 1; }; fi
PYTHONPATH=$wt/src /venv/bin/python $out/demo.py >/tmp/wt/$n.demo0.log 2>&1; r0=$?
git apply $out/patch.diff
if git diff --name-only | grep -q '\.[ch]$'; then ./rebuild_ext.sh >/dev/null 2>&1 || { echo "FAIL: C build"; exit 1; }; fi
PYTHONPATH=$wt/src /venv/bin/python $out/demo.py >/tmp/wt/$n.demo1.log 2>&1; r1=$?
echo "demo without change rc=$r0, with change rc=$r1"
[ $r0 -eq 0 ] && [ $r1 -ne 0 ] || { echo "FAIL: demo does not discriminate"; exit 1; }
PYTHONPATH=$wt/src timeout 1800 /venv/bin/python -m pytest -q -p no:cacheprovider --timeout=900 --continue-on-collection-errors --junitxml=/tmp/wt/$n.junit.xml src/hydrodiy >/tmp/wt/$n.pytest.log 2>&1
rm -rf src/hydrodiy/io/tests/run_scripts
/venv/bin/python - "$n" <<'P'
import sys, json, xml.etree.ElementTree as ET
n=sys.argv[1]
base=set(json.load(open('/root/.vp/BASELINE.json'))['stable_pass'])
passed=set()
for tc in ET.parse(f'/tmp/wt/{n}.junit.xml').getroot().iter('testcase'):
    if not any(c.tag in('failure','error','skipped') for c in tc):
        passed.add(tc.get('classname')+'::'+tc.get('name'))
missing=sorted(base-passed)
print("baseline-passing tests:",len(base),"still passing:",len(base&passed))
if missing: print("FAIL: tests broken by change:",missing[:10]); sys.exit(1)
P
[ $? -eq 0 ] || exit 1
mkdir -p /verif/seeded/$id
cp $out/patch.diff $out/demo.py /verif/seeded/$id/
/venv/bin/python - "$n" "$id" <<'P'
import sys, json
n,id=sys.argv[1:3]
m=json.load(open(f'/tmp/wt/{n}/_out/meta.json'))
m['confirmed']={"demo_rc_without_change":0,"demo_rc_with_change":"non-zero","baseline_tests":"all 183 stable_pass tests still pass with the change (pytest junit compared with /root/.vp/BASELINE.json)","by":"tools/confirm_mutant.sh in scratch worktree /tmp/wt/"+n}
m['origin']="independent sub-agent given only the property record and a scratch worktree"
json.dump(m,open(f'/verif/seeded/{id}/meta.json','w'),indent=1)
P
echo "CONFIRMED $id"
