#!/bin/sh
# usage: trymutant.sh <patch.diff> <prop> [extra vcheck args]  - applies to /repo, runs quick check, reverts
p="$1"; prop="$2"; shift 2
cd /repo || exit 2
git diff --quiet || { echo "repo dirty"; exit 2; }
git apply "$p" || { echo "patch does not apply"; exit 2; }
if git diff --name-only | grep -q '\.[ch]$'; then echo "(C change: extensions rebuild automatically)"; fi
cd /verif && VERIF_EVIDENCE_DIR=/tmp/hyverif-evidence-scratch ./vcheck "$prop" "$@" 2>&1 | grep -v "^  ('" | tail -8
rc=$?
cd /repo && git checkout -- . && git status --short | grep -v run_scripts
