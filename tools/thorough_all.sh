#!/bin/sh
# runs every thorough check in turn against VERIF_REPO (default /repo); used for background soak runs
for p in C12 C09 C13 C19 C05 C18; do
  echo "=== $p $(date)"; ./vcheck $p --tier thorough 2>&1 | grep -v "Warning\|^  ('" | tail -8 | cut -c1-600; echo "rc=$?"
done
