#!/bin/sh
# Development-time: re-checks on the CURRENT /repo HEAD that every seeded change still applies and that its
# demonstration passes without and fails with it (no test-suite run; tools/confirm_mutant.sh does the full job).
# usage: reconfirm_demos.sh [lanes]   -> prints one line per seeded id, "STALE" lines need attention
lanes=${1:-4}
cd /verif/seeded || exit 2
ids=$(ls -d */ | tr -d /)
i=0
for lane in $(seq 1 $lanes); do
  (
    wt=/tmp/wt/reconf$lane
    git -C /repo worktree remove --force $wt >/dev/null 2>&1
    /tmp/wt/mkwt.sh reconf$lane >/dev/null 2>&1 || exit 2
    n=0
    for id in $ids; do
      n=$((n+1)); [ $((n % lanes)) -eq $((lane % lanes)) ] || continue
      p=/verif/seeded/$id/patch.diff; d=/verif/seeded/$id/demo.py
      [ -f $p ] || continue
      cd $wt; git reset -q --hard; cp /repo/src/*.so $wt/src/
      if ! git apply --check $p 2>/dev/null; then echo "STALE $id patch does not apply"; continue; fi
      isc=0; grep -q '^+++ .*\.[ch]$' $p && isc=1
      PYTHONPATH=$wt/src timeout 600 /venv/bin/python $d >/dev/null 2>&1; r0=$?
      git apply $p
      [ $isc -eq 1 ] && ./rebuild_ext.sh >/dev/null 2>&1
      PYTHONPATH=$wt/src timeout 600 /venv/bin/python $d >/dev/null 2>&1; r1=$?
      if [ $r0 -eq 0 ] && [ $r1 -ne 0 ]; then echo "ok $id"; else echo "STALE $id demo rc without=$r0 with=$r1"; fi
      rm -rf src/hydrodiy/io/tests/run_scripts
    done
    git -C /repo worktree remove --force $wt >/dev/null 2>&1
  ) &
done
wait
